#!/usr/bin/env python3
"""Orchestration library for the ctap-types verification checks.

Pieces:
  build(cfg)                 incremental offline build of the harness against /repo's working tree
  run_scenario(...)          TLC on a scenario module: model invariants + VEC emission
  replay(...)                spec -> impl: run TLC's vectors through the real code
  validate(...)              impl -> spec: TLC trace validation of recorded events (CtapTrace.tla)
  Check                      bookkeeping: violations, known findings, evidence, exit code

Exit codes of a check: 0 held on everything explored, 1 violation (with a VIOLATION line and a
replay file), 2 tool error / timeout (never a VIOLATION line).
"""
import hashlib, json, os, re, shutil, subprocess, sys, time

VERIF = os.path.dirname(os.path.dirname(os.path.abspath(__file__)))
REPO = os.environ.get("CTV_REPO", "/repo")
SPEC = os.path.join(VERIF, "spec")
HARNESS = os.path.join(VERIF, "harness")
# The registered checks always run against /repo with these defaults.  bin/seedtest --scratch points
# them at a scratch copy of the repository (outside /repo and /verif) and at scratch output
# directories so that several seeded changes can be judged in parallel without touching /repo.
WORK = os.environ.get("CTV_WORK", os.path.join(VERIF, "work"))
REPLAYS = os.environ.get("CTV_REPLAYS", os.path.join(VERIF, "replays"))
EVIDENCE = os.environ.get("CTV_EVIDENCE", os.path.join(VERIF, "evidence"))
KNOWN = os.path.join(VERIF, "known_findings.json")

UNLISTED_TAGS = {"defaults"}

TLA_CP = "/opt/veriftools/tla/tla2tools.jar:/opt/veriftools/tla/CommunityModules-deps.jar"

GIF, LB, TPP = "get-info-full", "large-blobs", "third-party-payment"
CONFIGS = {
    "none": [],
    "gif": [GIF], "lb": [LB], "tpp": [TPP],
    "gif+lb": [GIF, LB], "gif+tpp": [GIF, TPP], "lb+tpp": [LB, TPP],
    "all": [GIF, LB, TPP],
    "all+arb": [GIF, LB, TPP, "arbitrary"],
    # the crate with every logging statement compiled in; the harness installs a logger that formats
    # every record (the arguments of the logging statements are code of the decode path too)
    "all+log": [GIF, LB, TPP, "log-all"],
    "none+log": ["log-all"],
}
NOT_MODELLED = {"arbitrary", "log-all"}      # features that do not change the modelled behaviour
ALL8 = ["none", "gif", "lb", "tpp", "gif+lb", "gif+tpp", "lb+tpp", "all"]


class ToolError(Exception):
    pass


def log(*a):
    print("[ctv]", *a, file=sys.stderr, flush=True)


def sh(cmd, **kw):
    return subprocess.run(cmd, stdout=subprocess.PIPE, stderr=subprocess.STDOUT, text=True, **kw)


# ----------------------------------------------------------------------------------------------
# harness builds
# ----------------------------------------------------------------------------------------------
_built = {}


def target_dir(cfg):
    if REPO == "/repo":
        return os.path.join(HARNESS, "target", cfg)
    return os.path.join(WORK, "target", cfg)


def build(cfg):
    """Build the harness for a feature configuration from /repo's CURRENT working tree."""
    if cfg in _built:
        return _built[cfg]
    feats = CONFIGS[cfg]
    tdir = target_dir(cfg)
    env = dict(os.environ, CARGO_NET_OFFLINE="true", CARGO_TARGET_DIR=tdir)
    env.pop("RUSTFLAGS", None)
    cmd = ["cargo", "build", "--offline", "--quiet"]
    if feats:
        cmd += ["--features", ",".join(feats)]
    t0 = time.time()
    manifest = os.path.join(HARNESS, "Cargo.toml")
    if REPO != "/repo":
        manifest = _scratch_manifest(REPO)
    r = sh(cmd + ["--manifest-path", manifest], env=env, cwd=HARNESS)
    if r.returncode != 0:
        raise ToolError("harness build failed for %s:\n%s" % (cfg, r.stdout[-4000:]))
    binp = os.path.join(tdir, "debug", "ctv-harness")
    if not os.path.exists(binp):
        raise ToolError("harness binary missing: " + binp)
    log("built harness[%s] in %.1fs" % (cfg, time.time() - t0))
    _built[cfg] = binp
    return binp


_built_wire = {}


def build_wire(cfg):
    """Build only the thin wire-level harness (survives API changes of the public structs)."""
    if cfg in _built_wire:
        return _built_wire[cfg]
    feats = [f for f in CONFIGS[cfg] if f not in NOT_MODELLED]
    tdir = target_dir(cfg)
    env = dict(os.environ, CARGO_NET_OFFLINE="true", CARGO_TARGET_DIR=tdir)
    env.pop("RUSTFLAGS", None)
    cmd = ["cargo", "build", "--offline", "--quiet", "--bin", "ctv-wire"]
    if feats:
        cmd += ["--features", ",".join(feats)]
    manifest = os.path.join(HARNESS, "Cargo.toml") if REPO == "/repo" else _scratch_manifest(REPO)
    r = sh(cmd + ["--manifest-path", manifest], env=env, cwd=HARNESS)
    if r.returncode != 0:
        raise ToolError("wire harness build failed for %s:\n%s" % (cfg, r.stdout[-3000:]))
    binp = os.path.join(tdir, "debug", "ctv-wire")
    _built_wire[cfg] = binp
    return binp


def replay_wire(cfg, vecpath, run, props=None):
    binp = build_wire(cfg)
    outpath = os.path.join(WORK, "tlc", run + ".wire.out")
    inpath = vecpath
    if props is not None:
        inpath = vecpath + ".pw"
        with open(vecpath) as f, open(inpath, "w") as g:
            for line in f:
                v = json.loads(line)
                v["props"] = props
                g.write(json.dumps(v, separators=(",", ":")) + "\n")
    r = sh([binp, "replay", inpath, outpath])
    recs, summary = [], None
    if os.path.exists(outpath):
        for line in open(outpath, errors="replace"):
            try:
                o = json.loads(line)
            except ValueError:
                continue
            if o.get("summary"):
                summary = o
            else:
                recs.append(o)
    if summary is None:
        summary = {"summary": True, "aborted": True, "rc": r.returncode, "stderr": r.stdout[-1500:]}
    log("wire replay %s[%s]: n=%s compared=%s mismatched=%s" % (run, cfg, summary.get("n"), summary.get("compared"), summary.get("mismatched")))
    return summary, recs


def _scratch_manifest(repo):
    """A copy of the harness manifest whose path dependency points at a scratch repository."""
    d = os.path.join(WORK, "scratch-harness")
    os.makedirs(d, exist_ok=True)
    txt = open(os.path.join(HARNESS, "Cargo.toml")).read().replace('path = "/repo"', 'path = "%s"' % repo)
    open(os.path.join(d, "Cargo.toml"), "w").write(txt)
    shutil.copy(os.path.join(HARNESS, "Cargo.lock"), os.path.join(d, "Cargo.lock"))
    os.makedirs(os.path.join(d, ".cargo"), exist_ok=True)
    shutil.copy(os.path.join(HARNESS, ".cargo", "config.toml"), os.path.join(d, ".cargo", "config.toml"))
    if os.path.lexists(os.path.join(d, "src")):
        os.remove(os.path.join(d, "src"))
    os.symlink(os.path.join(HARNESS, "src"), os.path.join(d, "src"))
    return os.path.join(d, "Cargo.toml")


# ----------------------------------------------------------------------------------------------
# TLC
# ----------------------------------------------------------------------------------------------
def fset(cfg):
    feats = [f for f in CONFIGS[cfg] if f not in NOT_MODELLED]
    return "{" + ", ".join('"%s"' % f for f in feats) + "}"


_dict_path = None


def dictionary():
    """The dictionary of the source under test (bin/harvest.py), harvested once per process from
    the CURRENT working tree of the repository; TLC reads it through the CTV_DICT variable."""
    global _dict_path
    if _dict_path is None:
        sys.path.insert(0, os.path.join(VERIF, "bin"))
        import harvest
        os.makedirs(os.path.join(WORK, "tlc"), exist_ok=True)
        d = harvest.harvest(REPO)
        path = os.path.join(WORK, "tlc", "dict.json")
        json.dump(d, open(path, "w"))
        log("dictionary of %s/src: %d texts, %d integers" % (REPO, len(d["texts"]), len(d["ints"])))
        _dict_path = path
    return _dict_path


TLC_STATS = re.compile(r"(\d+) states generated, (\d+) distinct states found")
SIM_STATS = re.compile(r"([\d,]+) states checked")


def tlc(module, cfgtext, run, workers=8, timeout=1800, env_extra=None, xss="1g", xmx="12g", simulate=None):
    """Run TLC; returns dict(out_lines, vec_path, n_vec, verdicts, generated, distinct, ok, errors)."""
    os.makedirs(os.path.join(WORK, "tlc"), exist_ok=True)
    cfgpath = os.path.join(WORK, "tlc", run + ".cfg")
    open(cfgpath, "w").write(cfgtext)
    meta = os.path.join(WORK, "tlc", run + ".md")
    shutil.rmtree(meta, ignore_errors=True)
    env = dict(os.environ)
    env.pop("JAVA_TOOL_OPTIONS", None)
    env["CTV_DICT"] = dictionary()
    if env_extra:
        env.update(env_extra)
    # java is invoked directly (not through the `tlc` wrapper) so that -Xss also sizes the MAIN
    # thread, in which TLC evaluates the scenario's constant generators
    cmd = ["timeout", str(timeout), "java", "-Xss" + xss, "-Xmx" + xmx, "-XX:+UseParallelGC",
           "-DTLA-Library=" + SPEC, "-Dtlc2.tool.queue.IStateQueue=StateDeque",
           "-cp", TLA_CP, "tlc2.TLC", "-workers", str(workers), "-metadir", meta, "-cleanup",
           "-noGenerateSpecTE", "-config", cfgpath]
    if simulate:
        # random behaviours of the state machine: simulate = (number of behaviours, depth, seed)
        cmd += ["-simulate", "num=%d" % simulate[0], "-depth", str(simulate[1]), "-seed", str(simulate[2])]
    cmd += [os.path.join(SPEC, module + ".tla")]
    vecpath = os.path.join(WORK, "tlc", run + ".vec")
    res = dict(cmd=" ".join(cmd), vec_path=vecpath, n_vec=0, verdicts=[], generated=0, distinct=0,
               ok=False, errors=[], log=[])
    t0 = time.time()
    with open(vecpath, "w") as vf:
        p = subprocess.Popen(cmd, stdout=subprocess.PIPE, stderr=subprocess.STDOUT, text=True, env=env, cwd=SPEC)
        for line in p.stdout:
            if line.startswith('"VEC '):
                vf.write(json.loads(line)[4:] + "\n")
                res["n_vec"] += 1
            elif line.startswith('"VERDICT '):
                res["verdicts"].append(json.loads(json.loads(line)[8:]))
            else:
                line = line.rstrip("\n")
                if line.startswith(("Picked up", "Parsing file", "Semantic processing", "Linting of")):
                    continue
                res["log"].append(line)
                m = TLC_STATS.search(line)
                if m:
                    res["generated"], res["distinct"] = int(m.group(1)), int(m.group(2))
                m = SIM_STATS.search(line)
                if m:
                    res["generated"] = res["distinct"] = int(m.group(1).replace(",", ""))
                if line.startswith("Error:") or "Exception" in line:
                    res["errors"].append(line)
        rc = p.wait()
    res["wall"] = time.time() - t0
    res["rc"] = rc
    shutil.rmtree(meta, ignore_errors=True)
    done = any("Model checking completed. No error has been found" in l for l in res["log"])
    if simulate:
        done = rc == 0 and any("states checked" in l or "Finished in" in l for l in res["log"])
    res["ok"] = (rc == 0 and done and not res["errors"])
    if rc == 124:
        res["errors"].append("TLC timed out after %ds" % timeout)
    return res


def tlc_collect(module, cfgtext, run, prefix, workers=8, timeout=1800):
    """Like tlc(), but collects the JSON payload of printed lines starting with `prefix`."""
    os.makedirs(os.path.join(WORK, "tlc"), exist_ok=True)
    cfgpath = os.path.join(WORK, "tlc", run + ".cfg")
    open(cfgpath, "w").write(cfgtext)
    meta = os.path.join(WORK, "tlc", run + ".md")
    shutil.rmtree(meta, ignore_errors=True)
    env = dict(os.environ)
    env.pop("JAVA_TOOL_OPTIONS", None)
    env["CTV_DICT"] = dictionary()
    cmd = ["timeout", str(timeout), "java", "-Xss1g", "-Xmx12g", "-XX:+UseParallelGC", "-DTLA-Library=" + SPEC,
           "-cp", TLA_CP, "tlc2.TLC", "-workers", str(workers), "-metadir", meta, "-cleanup",
           "-noGenerateSpecTE", "-config", cfgpath, os.path.join(SPEC, module + ".tla")]
    path = os.path.join(WORK, "tlc", run + ".lines")
    res = dict(cmd=" ".join(cmd), lines_path=path, n_lines=0, generated=0, distinct=0, ok=False, errors=[], log=[])
    t0 = time.time()
    q = '"' + prefix
    with open(path, "w") as vf:
        p = subprocess.Popen(cmd, stdout=subprocess.PIPE, stderr=subprocess.STDOUT, text=True, env=env, cwd=SPEC)
        for line in p.stdout:
            if line.startswith(q):
                vf.write(json.loads(line)[len(prefix):] + "\n")
                res["n_lines"] += 1
            else:
                line = line.rstrip("\n")
                if line.startswith(("Picked up", "Parsing file", "Semantic processing", "Linting of")):
                    continue
                res["log"].append(line)
                m = TLC_STATS.search(line)
                if m:
                    res["generated"], res["distinct"] = int(m.group(1)), int(m.group(2))
                if line.startswith("Error:") or "Exception" in line:
                    res["errors"].append(line)
        rc = p.wait()
    res["wall"] = time.time() - t0
    shutil.rmtree(meta, ignore_errors=True)
    done = any("Model checking completed. No error has been found" in l for l in res["log"])
    res["ok"] = (rc == 0 and done and not res["errors"])
    return res


def scenario_cfg(cfg, cases, invariants, max_exchanges=1, extra_constants="", spec="Spec"):
    return ("SPECIFICATION %s\nCONSTANTS\n    F = %s\n    Cases <- %s\n    MaxExchanges = %d\n    GenOutcomes = {}\n%s"
            "INVARIANTS %s\nCHECK_DEADLOCK FALSE\n") % (
        spec, fset(cfg), cases, max_exchanges, extra_constants, " ".join(invariants))


def run_scenario(module, cfg, cases="MC_Cases", invariants=("TypeOK", "Emit"), workers=8, timeout=1800,
                 run=None, max_exchanges=1, extra_constants=""):
    run = run or ("%s.%s.%s" % (module, cases, cfg))
    r = tlc(module, scenario_cfg(cfg, cases, list(invariants), max_exchanges, extra_constants), run,
            workers=workers, timeout=timeout)
    if not r["ok"]:
        raise ToolError("TLC scenario %s failed (model-level):\n%s" % (run, "\n".join(r["log"][-40:])))
    log("TLC %s: %d distinct states, %d vectors, %.1fs" % (run, r["distinct"], r["n_vec"], r["wall"]))
    return r


# ----------------------------------------------------------------------------------------------
# spec -> impl
# ----------------------------------------------------------------------------------------------
def replay(cfg, vecpath, run, full=False, props=None):
    """Run vectors through the real code.  Returns (summary, records) where records are the
    mismatching / abnormal results (or all results with full=True)."""
    binp = build(cfg)
    outpath = os.path.join(WORK, "tlc", run + ".out")
    inpath = vecpath
    if props is not None:
        # stamp the properties these vectors serve (used by trace adjudication)
        inpath = vecpath + ".p"
        with open(vecpath) as f, open(inpath, "w") as g:
            for line in f:
                v = json.loads(line)
                # behaviour beyond the listed properties (defaults, builders) serves no property id:
                # a deviation there is reported as a note, never as a violation of a listed property
                v["props"] = ["SPEC"] if v.get("tag") in UNLISTED_TAGS else props
                g.write(json.dumps(v, separators=(",", ":")) + "\n")
    t0 = time.time()
    r = sh([binp, "replay", inpath, outpath] + (["--full"] if full else []))
    recs, summary = [], None
    if os.path.exists(outpath):
        for line in open(outpath, errors="replace"):
            try:
                o = json.loads(line)
            except ValueError:
                continue          # a line cut short by an abort of the process
            if o.get("summary"):
                summary = o
            else:
                recs.append(o)
    if r.returncode not in (0, 3) and summary is None:
        # the harness process died: the code under test aborted (stack overflow, abort()) --
        # that is data, the first unanswered vector is the culprit
        answered = len(recs)
        summary = {"summary": True, "aborted": True, "rc": r.returncode, "n": answered, "stderr": r.stdout[-2000:]}
    if summary is None:
        raise ToolError("replay produced no summary: rc=%s %s" % (r.returncode, r.stdout[-2000:]))
    if summary.get("toolerr"):
        bad = [x for x in recs if x.get("outcome") == "toolerr"][:3]
        raise ToolError("replay tool errors (%d): %s" % (summary["toolerr"], json.dumps(bad)[:2000]))
    log("replay %s[%s]: n=%s matched=%s mismatched=%s panics=%s%s (%.1fs)" % (
        run, cfg, summary.get("n"), summary.get("matched"), summary.get("mismatched"), summary.get("panics"),
        (" log records formatted=%s" % summary.get("log_records")) if "log-all" in CONFIGS.get(cfg, []) else "",
        time.time() - t0))
    return summary, recs


# ----------------------------------------------------------------------------------------------
# impl -> spec
# ----------------------------------------------------------------------------------------------
def validate(cfg, events, run, timeout=1800, shards=1):
    """TLC trace validation of recorded events.  events: list of dicts with in/obs/outcome/op/line.
    Returns (verdicts by line, tlc stats list)."""
    if not events:
        return {}, []
    os.makedirs(os.path.join(WORK, "tlc"), exist_ok=True)
    stats, verdicts = [], {}
    shards = max(1, min(shards, len(events)))
    per = (len(events) + shards - 1) // shards
    procs = []
    for s in range(shards):
        chunk = events[s * per:(s + 1) * per]
        if not chunk:
            continue
        tpath = os.path.join(WORK, "tlc", "%s.%d.trace.ndjson" % (run, s))
        with open(tpath, "w") as f:
            for e in chunk:
                f.write(json.dumps(_trace_event(e), separators=(",", ":")) + "\n")
        cfgtext = ("SPECIFICATION TraceSpec\nCONSTANTS\n    F = %s\n    Cases = {}\n    MaxExchanges = 100000000\n    GenOutcomes = {}\n"
                   "INVARIANTS Verdict\nCHECK_DEADLOCK FALSE\n") % fset(cfg)
        procs.append((chunk, tpath, "%s.%d" % (run, s), cfgtext))
    # shards run sequentially here; callers wanting parallelism use several validate() calls
    for chunk, tpath, rname, cfgtext in procs:
        r = tlc("CtapTrace", cfgtext, rname, workers=1, timeout=timeout, env_extra={"TRACE": tpath})
        if not r["ok"]:
            raise ToolError("trace validation %s failed (tool):\n%s" % (rname, "\n".join(r["log"][-30:])))
        got = {v["line"]: v for v in r["verdicts"]}
        for e in chunk:
            if e["line"] not in got:
                raise ToolError("trace validation %s: no verdict for event line %s" % (rname, e["line"]))
        verdicts.update(got)
        stats.append(r)
    return verdicts, stats


def _trace_event(e):
    inp = e.get("in") or e.get("vector") or {}
    inp = dict(inp)
    inp.pop("exp", None)
    return {"line": e["line"], "op": e.get("op") or inp.get("op"), "outcome": e["outcome"],
            "in": inp, "obs": e.get("obs", {})}


# ----------------------------------------------------------------------------------------------
# bookkeeping
# ----------------------------------------------------------------------------------------------
def load_known():
    if not os.path.exists(KNOWN):
        return []
    return json.load(open(KNOWN)).get("findings", [])


def finding_matches(entry, prop, rec):
    """A known-finding entry identifies the specific failing input / call site."""
    if entry.get("status") != "known" or entry.get("property") != prop:
        return False
    m = entry.get("match", {})
    vec = rec.get("vector") or rec.get("in") or {}
    for k, want in m.items():
        if k == "cfg":
            if rec.get("cfg") not in (want if isinstance(want, list) else [want]):
                return False
        elif k == "tag_prefix":
            if not str(vec.get("tag", "")).startswith(want):
                return False
        elif k == "resp_all_unset":
            v = (vec.get("resp") or {}).get("v") or {}
            if not isinstance(v, dict) or any(x != [] for x in v.values()):
                return False
        else:
            if vec.get(k) != want:
                return False
    return True


class Check:
    def __init__(self, prop, tier, seed):
        self.prop, self.tier, self.seed = prop, tier, seed
        self.t0 = time.time()
        self.states = 0
        self.transitions = 0
        self.replayed = 0
        self.validated = 0
        self.samples = []
        self.cmds = []
        self.violations = []      # (what, replay path)
        self.known_hit = []
        self.notes = []
        self.exhaustive = None
        self.extra = {}
        self.known = load_known()

    def add_tlc(self, r):
        self.states += r["distinct"]
        self.transitions += r["generated"]
        self.cmds.append(r["cmd"])

    def sample(self, x, limit=6):
        if len(self.samples) < limit:
            s = json.dumps(x)
            self.samples.append(x if len(s) < 3000 else json.loads(json.dumps({"truncated": s[:2800]})))

    def violation(self, rec, what):
        """rec: the offending vector/event with observation and configuration."""
        for k in self.known:
            if finding_matches(k, self.prop, rec):
                if k["id"] not in [x["id"] for x in self.known_hit]:
                    self.known_hit.append(k)
                return
        os.makedirs(REPLAYS, exist_ok=True)
        body = json.dumps(rec, sort_keys=True)
        path = os.path.join(REPLAYS, "%s-%s.json" % (self.prop, hashlib.sha256(body.encode()).hexdigest()[:8]))
        json.dump({"property": self.prop, "what": what, "record": rec}, open(path, "w"), indent=1)
        self.violations.append((what, path))

    def finish(self, rule, level="model_checking", assumptions=None):
        for k in self.known_hit:
            print("KNOWN-FINDING: property=%s %s" % (self.prop, k["what"]))
        seen = set()
        for what, path in self.violations[:20]:
            if path in seen:
                continue
            seen.add(path)
            print("VIOLATION property=%s replay=%s" % (self.prop, path))
            log("  ->", what[:300])
        cov = {
            "states": self.states, "transitions": self.transitions,
            "traces_validated_against_impl": self.replayed + self.validated,
            "vectors_replayed": self.replayed, "trace_events_validated": self.validated,
            "samples": self.samples or [{"note": "no sample recorded"}],
            "rule": rule, "checker_cmd": " ; ".join(self.cmds[:6]),
            "known_findings_hit": [k["id"] for k in self.known_hit],
            "notes": self.notes,
        }
        if self.exhaustive is not None:
            cov["exhaustive"] = self.exhaustive
        cov.update(self.extra)
        ev = {
            "property_id": self.prop, "tier": self.tier, "seed": self.seed, "level": level,
            "coverage": cov,
            "assumptions": assumptions or [
                "TLC 1.8 and the CommunityModules JSON reader/writer are correct",
                "the harness projection functions (harness/src/proj.rs, build.rs) map real values to abstract records faithfully",
                "the tables in spec/CtapTables.tla transcribe the FIDO / W3C / ISO documents correctly",
                "rustc and the pinned dependency versions in /repo/Cargo.lock",
            ],
            "wall_s": round(time.time() - self.t0, 2),
            "violations": len(seen),
        }
        os.makedirs(EVIDENCE, exist_ok=True)
        json.dump(ev, open(os.path.join(EVIDENCE, self.prop + ".json"), "w"), indent=1)
        return 1 if seen else 0
