"""Per-property plans: which scenarios, configurations and drivers decide each property."""
import json, os
from ctvlib import *


_SCENARIO_CACHE = {}


def vectors(chk, module, cases, cfgs, props, invariants, workers=8, timeout=1800, tag=None):
    """TLC scenario -> vectors -> replay on the real code -> adjudicate mismatches with the trace
    specification.  `props`: the properties for which agreement with the model ON THESE VECTORS is
    the property itself."""
    for cfg in cfgs:
        run = "%s.%s.%s.%s" % (chk.prop, module, cases, cfg)
        key = (module, cases, tuple(invariants), "", fset(cfg))
        if key in _SCENARIO_CACHE:       # same modelled feature set (e.g. all / all+log): same vectors
            r = _SCENARIO_CACHE[key]
        else:
            r = run_scenario(module, cfg, cases, invariants, workers=workers, timeout=timeout, run=run)
            chk.add_tlc(r)
            _SCENARIO_CACHE[key] = r
        judge_vectors(chk, cfg, r, run, props)


def adjudicate(chk, cfg, bad, run):
    bad = [x for x in bad if not x.get("summary")]
    if not bad:
        return
    for i, x in enumerate(bad):
        x["line"] = i
    verdicts, stats = validate(cfg, bad[:400], run + ".adj")
    for st in stats:
        chk.add_tlc(st)
    for x in bad[:400]:
        v = verdicts[x["line"]]
        if chk.prop in v["violated"]:
            x["cfg"] = cfg
            what = "%s: outcome=%s diff=%s tag=%s msg=%s" % (
                x.get("op"), x.get("outcome"), x.get("diff"), (x.get("vector") or {}).get("tag"), x.get("msg", ""))
            chk.violation(x, what)
        else:
            if "SPEC" in v["violated"]:
                log("DEVIATION in behaviour beyond the listed properties (tag %s): diff=%s" % (
                    (x.get("vector") or {}).get("tag"), x.get("diff")))
            chk.notes.append("vector deviates from the model without violating %s (violated: %s, tag %s)" % (
                chk.prop, v["violated"], (x.get("vector") or {}).get("tag")))
    if len(bad) > 400:
        chk.notes.append("%d further mismatches not adjudicated" % (len(bad) - 400))


def plan_C01(chk, tier, seed):
    cfgs = ["none", "all"] if tier == "quick" else ALL8
    vectors(chk, "MC_Requests", "MC_Cases", cfgs, ["C01"],
            ["TypeOK", "DecodeTotal", "DecodeFaithful", "KeyAttribution", "HostCanonical", "Emit"])
    # nested maps whose members come in another order (not canonical: HostCanonical is not asserted)
    simple(chk, "MC_Requests", ["none", "all"], ["C01"], ["TypeOK", "DecodeTotal", "DecodeFaithful", "KeyAttribution", "Emit"], cases="OrderCases")
    # the dictionary of the source, the specially-parsed texts, and every member once per sub-command
    simple(chk, "MC_Requests", ["all"] if tier == "quick" else ["none", "all"], ["C01"],
           ["TypeOK", "DecodeTotal", "DecodeFaithful", "KeyAttribution", "Emit"],
           cases="MC_CasesDict" if tier == "quick" else "MC_CasesDictDeep", workers=14)
    # the documented lossy members inside complete requests: names cut at 64 bytes for every
    # width pattern straddling the cut, icons around 128 bytes
    simple(chk, "MC_Truncate", ["all"] if tier == "quick" else ["none", "all"], ["C01"],
           ["TypeOK", "DecodeTotal", "DecodeFaithful", "Emit"], cases="C01_Cases",
           extra_constants="    Deep = %s\n" % ("TRUE" if tier == "thorough" else "FALSE"), workers=14)
    return ("every subset of optional parameters of every parameter-bearing command, every subset of optional "
            "members of every nested map, full requests, every sub-command, every member over the lattice of its type one "
            "at a time, every pair of members at the extremes and every triple at the upper ends, one odd entry at "
            "every position of the long lists, requests whose members are each legal and whose total crosses the "
            "7609-byte transport limit and 2^16 (7608..65537); every permutation of the members of every nested "
            "text-keyed map; the words of the source's dictionary and the texts standard parsers treat specially in "
            "every text member; every member once per sub-command and per PIN protocol; TLC checks DecodeFaithful / "
            "KeyAttribution on the model and emits one vector per case, replayed through "
            "ctap2::Request::deserialize; a vector is non-trivial when it decodes a distinct message")


PLANS = {
    "C01": plan_C01,
}


def replay_one(prop, path):
    rec = json.load(open(path))["record"]
    cfg = rec.get("cfg", "none")
    vec = rec.get("vector") or rec.get("in")
    os.makedirs(os.path.join(WORK, "tlc"), exist_ok=True)
    vp = os.path.join(WORK, "tlc", "replay1.vec")
    open(vp, "w").write(json.dumps(vec) + "\n")
    summary, recs = replay(cfg, vp, "replay1", full=True)
    if summary.get("aborted"):
        print("the process aborted while handling the vector: " + summary.get("stderr", "")[-300:])
        print("VIOLATION property=%s replay=%s" % (prop, path))
        return 1
    for i, x in enumerate(recs):
        x["line"] = i
    verdicts, _ = validate(cfg, recs, "replay1.adj")
    bad = [x for x in recs if prop in verdicts[x["line"]]["violated"]]
    print(json.dumps({"observed": [x.get("obs") for x in recs], "verdicts": list(verdicts.values())})[:4000])
    if bad:
        print("VIOLATION property=%s replay=%s" % (prop, path))
        return 1
    return 0


RESP_INV = ["TypeOK", "EncodeExact", "OutputCanonical", "FitsOrOneByteError", "Emit"]


ENC_PROPS = {"encode2": ["C02", "C03", "C17"], "encode_type": ["C02", "C03"], "authdata": ["C07", "C03"],
             "u2f_encode": ["C09"], "apdu": ["C08"], "decode2": ["C01", "C04", "C05"], "decode_type": ["C04"]}


def value_traces(chk, cfg, module, cases, n, seed, run, extra=""):
    """impl -> spec for the encoders: mutate the abstract values of TLC-generated vectors (contents,
    lengths within capacity, dropped options, flipped booleans, nudged integers), run the real
    encoder, validate every event with the trace specification."""
    r = tlc(module, scenario_cfg(cfg, cases, ["TypeOK", "Emit"], 1, extra), run + ".seeds", workers=8)
    if not r["ok"]:
        raise ToolError("TLC %s failed:\n%s" % (run, "\n".join(r["log"][-30:])))
    chk.add_tlc(r)
    return drive_and_validate(chk, cfg, "mutate:" + r["vec_path"], n, seed, ENC_PROPS, run, shards=6)


def reused_buffers(chk, prop):
    """Responses serialised into buffers that are NOT fresh (previous contents of several shapes,
    two-exchange histories): what the property says about the emitted bytes must not depend on it."""
    inv = ["TypeOK", "FitsOrOneByteError", "Emit"]
    simple(chk, "MC_Buffer", ["all"], [prop], inv, cases="StatusCases")
    simple(chk, "MC_Buffer", ["all"], [prop], inv, cases="MC_HistCases", max_exchanges=2)


def plan_C02(chk, tier, seed):
    cfgs = ["none", "all"] if tier == "quick" else ALL8
    vectors(chk, "MC_Responses", "MC_Cases" if tier == "quick" else "MC_CasesDeep", cfgs, ["C02"], RESP_INV)
    reused_buffers(chk, "C02")
    value_traces(chk, "all", "MC_Responses", "MC_Cases", 1500 if tier == "quick" else 30000, seed, "C02.values")
    return ("every subset of the optional members of every response kind (exhaustive up to 9 optional members, "
            "otherwise {}, all pairs, full), statement shapes, COSE key kinds, integer/byte/list lattices; TLC checks "
            "EncodeExact on the model (generic parser vs table) and emits vectors replayed through "
            "ctap2::Response::serialize and cbor_serialize; member pairs / triples at the extremes of their types; every "
            "kind of response into buffers that are not fresh (1..20 previous bytes, two-exchange histories); signatures "
            "and certificate slots holding DER (complete, padded, chained, cut off); GetInfo's size members against "
            "each other at real transport values; "
            "deviating vectors are adjudicated by the trace "
            "specification on the OBSERVED bytes (same pair set, status byte, no null)")


def plan_C03(chk, tier, seed):
    cfgs = ["none", "all"] if tier == "quick" else ALL8
    vectors(chk, "MC_Responses", "MC_Cases" if tier == "quick" else "MC_CasesDeep", cfgs, ["C03"], RESP_INV)
    reused_buffers(chk, "C03")
    # the extension map embedded in authenticator data (also when the buffer runs out inside it)
    simple(chk, "MC_AuthData", ["all"], ["C03"], ["TypeOK", "AuthDataLayout", "Emit"], extra_constants="    Deep = FALSE\n")
    value_traces(chk, "all", "MC_Responses", "MC_Cases", 1500 if tier == "quick" else 30000, seed + 1, "C03.values")
    if tier == "thorough":
        value_traces(chk, "all", "MC_AuthData", "MC_Cases", 10000, seed + 2, "C03.authdata.values", extra="    Deep = FALSE\n")
    return ("every pair of members of every serialisable map type (plus exhaustive subsets of the small ones) in "
            "each feature configuration, integers across the 1/2/3/5/9-byte head thresholds; TLC checks "
            "OutputCanonical on the model; byte strings and integers whose encoding ends like another encoding; every "
            "kind of response into buffers that are not fresh; the observed bytes of every deviating vector are "
            "judged by IsCanonical in the trace specification")


def simulated_sessions(chk, cfg, nbeh, seed, run, props):
    """TLC -simulate: random behaviours of the session machine (up to 8 exchanges each over one
    transport buffer); each behaviour is replayed as ONE session through the real code with one
    real buffer object reused from exchange to exchange."""
    cfgtext = scenario_cfg(cfg, "MC_SimCases", ["TypeOK", "ExchangeDispatch", "ExchangeAnswer", "Emit"], max_exchanges=8)
    r = tlc("MC_Session", cfgtext, run, workers=1, timeout=1800, simulate=(nbeh, 60, seed + 1))
    if not r["ok"]:
        raise ToolError("TLC simulation %s failed:\n%s" % (run, "\n".join(r["log"][-30:])))
    chk.add_tlc(r)
    sessions, cur = [], None
    for line in open(r["vec_path"]):
        v = json.loads(line)
        if v.get("op") != "exchange":
            continue
        if v["nexch"] == 0 or cur is None:
            cur = {"op": "session", "tag": "simulated-session", "cap": v["cap"], "steps": [], "exp": {"steps": []}}
            sessions.append(cur)
        cur["steps"].append({"wire": v["wire"], "script": v["script"], "hasLb": v["hasLb"], "respv": v["respv"], "stale": v["stale"]})
        cur["exp"]["steps"].append(v["exp"])
    # identical behaviours are replayed once
    uniq = {json.dumps(x, sort_keys=True): x for x in sessions}
    sessions = list(uniq.values())
    vp = os.path.join(WORK, "tlc", run + ".sessions.vec")
    with open(vp, "w") as f:
        for x in sessions:
            f.write(json.dumps(x, separators=(",", ":")) + "\n")
    log("TLC %s: %d states checked, %d distinct behaviours of up to 8 exchanges" % (run, r["distinct"], len(sessions)))
    summary, recs = replay(cfg, vp, run + ".sessions")
    chk.replayed += sum(len(x["steps"]) for x in sessions)
    if sessions:
        chk.sample({"op": "session", "cap": sessions[0]["cap"], "n_steps": len(sessions[0]["steps"]),
                    "first_step_wire": sessions[0]["steps"][0]["wire"][:40]})
    bad = [x for x in recs if x.get("outcome") in ("panic", "hang") or x.get("match") is False]
    # a deviating session is cut into its exchanges (each with the buffer contents the model says
    # the previous exchange left) and adjudicated by the trace specification
    events = []
    for x in bad:
        vec = x["vector"]
        for i, st in enumerate(vec["steps"]):
            obs_steps = (x.get("obs") or {}).get("steps") or []
            if i >= len(obs_steps):
                break
            events.append({"op": "exchange", "outcome": x["outcome"] if x["outcome"] != "return" else "return",
                           "in": {"op": "exchange", "tag": "simulated-session", "wire": st["wire"], "script": st["script"],
                                  "hasLb": st["hasLb"], "respv": st["respv"], "cap": vec["cap"], "stale": st["stale"], "props": props},
                           "obs": obs_steps[i], "cfg": cfg})
        if x["outcome"] != "return":
            chk.violation({"cfg": cfg, "vector": vec, "outcome": x["outcome"], "msg": x.get("msg", "")},
                          "session replay: outcome=%s %s" % (x["outcome"], x.get("msg", "")))
    for i, e in enumerate(events):
        e["line"] = i
    if events:
        verdicts, stats = validate(cfg, events[:300], run + ".adj")
        for st in stats:
            chk.add_tlc(st)
        for e in events[:300]:
            if chk.prop in verdicts[e["line"]]["violated"]:
                chk.violation(e, "simulated session: exchange deviates from the specification")


def plan_C17(chk, tier, seed):
    cfgs = ["none", "all"]
    inv = ["TypeOK", "FitsOrOneByteError", "Emit"]
    for cfg in cfgs:
        run = "C17.MC_Buffer.%s" % cfg
        r = run_scenario("MC_Buffer", cfg, "MC_Cases", inv, run=run)
        chk.add_tlc(r)
        judge_vectors(chk, cfg, r, run, ["C17"])
        # two-exchange histories: the buffer is reused, the second response must not depend on the first
        run = "C17.MC_Buffer.hist.%s" % cfg
        r = tlc("MC_Buffer", scenario_cfg(cfg, "MC_HistCases", inv, max_exchanges=2) +
                "PROPERTIES StaleIndependence\n", run)
        if not r["ok"]:
            raise ToolError("TLC %s failed:\n%s" % (run, "\n".join(r["log"][-30:])))
        chk.add_tlc(r)
        judge_vectors(chk, cfg, r, run, ["C17"])
    # every member of every response over the lattice of its type must come out as a COMPLETE message
    simple(chk, "MC_Responses", ["all"] if tier == "quick" else ["none", "all"], ["C17"],
           ["TypeOK", "FitsOrOneByteError", "Emit"], cases="LatticeAll")
    value_traces(chk, "all", "MC_Buffer", "MC_Cases", 1500 if tier == "quick" else 30000, seed, "C17.values")
    # complete exchanges over a reused buffer: histories of two exchanges, with the liveness property
    # that every exchange terminates
    run = "C17.MC_Session.hist"
    r = tlc("MC_Session", scenario_cfg("all", "MC_HistCases", ["TypeOK", "ExchangeDispatch", "ExchangeAnswer", "Emit"], max_exchanges=2)
            + "PROPERTIES StaleIndependence ExchangeTerminates\n", run, workers=12)
    if not r["ok"]:
        raise ToolError("TLC %s failed:\n%s" % (run, "\n".join(r["log"][-30:])))
    log("TLC %s: %d distinct states, %d vectors, %.1fs" % (run, r["distinct"], r["n_vec"], r["wall"]))
    chk.add_tlc(r)
    judge_vectors(chk, "all", r, run, ["C17"])
    simulated_sessions(chk, "all", 300 if tier == "quick" else 5000, seed, "C17.sim", ["C17"])
    return ("responses whose message length L is tuned so that L-N covers -3..2 for every instantiated capacity N "
            "(1..130, 254..258, 1022..1026, 3070..3074, 64, 256, 1024, 3072, 7609), all-unset and body-less "
            "responses at N=1,2,3, planted previous contents, two-exchange histories over a reused buffer; the "
            "harness additionally serialises every response into a buffer with different previous contents and "
            "into the 7609-byte buffer; the full response of every kind against EVERY capacity up to its length; the "
            "largest value of every response kind and every pair / triple of members at the extremes against "
            "capacities len-1, len, len+1, 1024, 3072, 7609; "
            "complete exchanges (decode, dispatch, encode) in two-exchange histories with the liveness property "
            "ExchangeTerminates; random behaviours of up to 8 exchanges from tlc -simulate replayed as sessions over "
            "one real buffer object; judged on the observed bytes: a complete message iff it fits, else exactly 0x7F")


def judge_vectors(chk, cfg, r, run, props):
    with open(r["vec_path"]) as f:
        first = f.readline()
        if first:
            v = json.loads(first); v["cfg"] = cfg
            chk.sample(v)
    try:
        summary, recs = replay(cfg, r["vec_path"], run, props=props)
    except ToolError as e:
        if "harness build failed" not in str(e):
            raise
        # the public API changed shape (a member's type, a removed field): the projection harness does
        # not compile against this tree.  The thin wire-level harness touches no struct field; it
        # still decides acceptance / status / re-encoding, which is judged here.
        log("projection harness does not build for %s; falling back to the wire-level harness" % cfg)
        chk.notes.append("main harness does not build for %s (API change); judged by the wire-level harness only" % cfg)
        s3, recs3 = replay_wire(cfg, r["vec_path"], run, props=props)
        chk.replayed += s3.get("compared", 0)
        for x in recs3[:40]:
            x["cfg"] = cfg
            chk.violation(x, "wire-level harness: %s %s deviates from the model: diff=%s" % (
                x.get("op"), (x.get("vector") or {}).get("tag"), x.get("diff")))
        if s3.get("aborted"):
            chk.violation({"cfg": cfg, "vector": {"op": "wire", "run": run}, "outcome": "abort"},
                          "the wire-level harness aborted: %s" % s3.get("stderr", "")[-300:])
        return
    if summary.get("aborted"):
        # the code under test killed the process (abort, stack overflow, non-unwinding panic such as a
        # violated unsafe precondition): find the vector at which it died, report it, and go on
        # with the vectors after it
        lines = open(r["vec_path"]).read().splitlines()
        start, guard = 0, 0
        while guard < 25:
            guard += 1
            part = os.path.join(WORK, "tlc", run + ".part.vec")
            open(part, "w").write("\n".join(lines[start:]) + "\n")
            s2, all_recs = replay(cfg, part, run + ".part", full=True, props=props)
            answered = len(all_recs)
            bad = [x for x in all_recs if x.get("outcome") in ("panic", "hang") or x.get("match") is False]
            chk.replayed += len([x for x in all_recs if "match" in x])
            adjudicate(chk, cfg, bad, run + ".p%d" % guard)
            if not s2.get("aborted"):
                break
            culprit = json.loads(lines[start + answered])
            culprit["props"] = props
            chk.violation({"cfg": cfg, "vector": culprit, "outcome": "abort", "stderr": s2.get("stderr", "")[-800:]},
                          "the process ABORTED while handling this vector (%s): %s" % (culprit.get("tag"), s2.get("stderr", "")[-300:]))
            start = start + answered + 1
            if start >= len(lines):
                break
        return
    chk.replayed += summary.get("compared", 0)
    if summary.get("hang_at") is not None:
        for rec in recs:
            if rec.get("outcome") == "hang":
                rec["cfg"] = cfg
                chk.violation(rec, "call did not return within 20 s")
    bad = [x for x in recs if x.get("outcome") in ("panic", "hang") or x.get("match") is False]
    adjudicate(chk, cfg, bad, run)


PLANS.update({"C02": plan_C02, "C03": plan_C03, "C17": plan_C17})


def simple(chk, module, cfgs, props, invariants, cases="MC_Cases", extra_constants="", workers=8, timeout=3000, max_exchanges=1):
    for cfg in cfgs:
        run = "%s.%s.%s.%s" % (chk.prop, module, cases, cfg)
        key = (module, cases, tuple(invariants), extra_constants + str(max_exchanges), fset(cfg))
        if key in _SCENARIO_CACHE:       # same modelled feature set (e.g. all / all+log): same vectors
            r = _SCENARIO_CACHE[key]
        else:
            r = tlc(module, scenario_cfg(cfg, cases, invariants, max_exchanges, extra_constants), run,
                    workers=workers, timeout=timeout)
            if not r["ok"]:
                raise ToolError("TLC scenario %s failed (model-level):\n%s" % (run, "\n".join(r["log"][-40:])))
            log("TLC %s: %d distinct states, %d vectors, %.1fs" % (run, r["distinct"], r["n_vec"], r["wall"]))
            chk.add_tlc(r)
            _SCENARIO_CACHE[key] = r
        judge_vectors(chk, cfg, r, run, props)


def plan_C05(chk, tier, seed):
    cfgs = ["none", "all"] if tier == "quick" else ALL8
    inv = ["TypeOK", "DecodeTotal", "StatusByFaultKind", "Emit"]
    simple(chk, "MC_Faults", cfgs, ["C05"], inv, extra_constants='    SeedKinds = {"min", "full"}\n')
    simple(chk, "MC_Commands", ["none", "all"], ["C05"], ["TypeOK", "DecodeTotal", "StatusByFaultKind", "CommandTableTotal", "Emit"],
           cases="CommandCases")
    # a request whose nested maps list their members in another order is still a well-formed request
    simple(chk, "MC_Requests", ["all"], ["C05"], ["TypeOK", "DecodeTotal", "DecodeFaithful", "Emit"], cases="OrderCases")
    return ("every single fault (remove each required member at every nesting level, truncate at every byte offset, "
            "duplicate each key adjacent and at the end, widen every integer / key / length head to every wider form, "
            "make every string and container indefinite, replace every value by a representative of every other data "
            "type, every unassigned / unsupported command byte) applied to the minimal and the full request of every "
            "command; TLC checks on the model that the property's fault-kind table agrees with the streaming decoder "
            "(StatusByFaultKind) and emits the faulty messages, replayed through ctap2::Request::deserialize")


def plan_C11(chk, tier, seed):
    simple(chk, "MC_Commands", ["none", "all"], ["C11"], ["TypeOK", "DecodeTotal", "CommandTableTotal", "Emit"])
    chk.exhaustive = True
    return ("all 256 command bytes x 12-13 payload classes through ctap2::Request::deserialize, 12 command bytes of every "
            "kind followed by 1023..20000 bytes (past the 7609-byte transport limit), and all 256 bytes "
            "through Operation::try_from / u8::from / VendorOperation::try_from; TLC checks exactness, totality and "
            "injectivity of the table on the model (ASSUMEs + CommandTableTotal); the 256-value domain is enumerated "
            "completely on both sides")


def sweep_enumstr(chk, cfg, log2, run):
    """Whole-space-style sweep of the string look-ups against the listed spellings TLC emitted."""
    binp = build(cfg)
    vecs = os.path.join(WORK, "tlc", "C18.MC_Enums.MC_Cases.%s.vec" % cfg)
    out = os.path.join(WORK, "tlc", run + ".sweep.out")
    r = sh([binp, "sweep", "enumstr", vecs, str(log2), "16", out])
    if r.returncode != 0:
        raise ToolError("enumstr sweep failed: rc=%s %s" % (r.returncode, r.stdout[-2000:]))
    recs = [json.loads(l) for l in open(out, errors="replace")]
    summary = [x for x in recs if x.get("summary")][0]
    mism = [x for x in recs if not x.get("summary")]
    log("sweep %s[%s]: %d strings judged against %d listed spellings, %d mismatches" % (
        run, cfg, summary["checked"], summary["table"], len(mism)))
    if summary["table"] < 10:
        raise ToolError("enumstr sweep: only %d listed spellings found in %s" % (summary["table"], vecs))
    chk.extra["swept_inputs"] = chk.extra.get("swept_inputs", 0) + summary["checked"]
    chk.replayed += summary["checked"]
    if mism:
        # the deviating strings become ordinary vectors, judged by the trace specification
        vp = os.path.join(WORK, "tlc", run + ".sweep.vec")
        with open(vp, "w") as f:
            for x in mism[:100]:
                f.write(json.dumps({"op": "enum_str", "tag": "enum-str-sweep", "table": x["table"], "s": x["s"], "props": ["C18"]}) + "\n")
        s2, recs2 = replay(cfg, vp, run + ".sweep", full=True)
        for i, x in enumerate(recs2):
            x["line"] = i
        verdicts, stats = validate(cfg, recs2, run + ".sweep.adj")
        for st in stats:
            chk.add_tlc(st)
        for x in recs2:
            if chk.prop in verdicts[x["line"]]["violated"]:
                x["cfg"] = cfg
                chk.violation(x, "an unlisted string is accepted by the %s look-up (or a listed one is not): %s" % (
                    (x.get("in") or x.get("vector") or {}).get("table"), bytes((x.get("in") or x.get("vector") or {}).get("s", [])).decode("utf-8", "replace")))


def plan_C18(chk, tier, seed):
    simple(chk, "MC_Enums", ["none", "all"], ["C18"], ["TypeOK", "IdentifierTables", "Emit"])
    # every short string and 2^k strings of every listed length through the string look-ups
    sweep_enumstr(chk, "all", 26 if tier == "quick" else 33, "C18.enumstr")
    # the status numbers the crate itself EMITS: Success in front of every payload, Other alone,
    # on fresh buffers, on buffers with previous contents and in two-exchange histories
    reused_buffers(chk, "C18")
    chk.exhaustive = True
    return ("every identifier table: each valid spelling, every single-character deletion / substitution / insertion, "
            "case variants, prefixes, extensions and the names of the other tables through TryFrom<&str> and through "
            "the CBOR decoder; all 256 numbers through TryFrom<u8> / the decoder plus threshold integers; permission "
            "bits and from_bits over all 256 values; every status code number; the status numbers the crate EMITS "
            "(0x00 in front of every payload, 0x7F alone, nothing else) for every kind of response into fresh and "
            "non-fresh buffers")


PLANS.update({"C05": plan_C05, "C11": plan_C11, "C18": plan_C18})


def plan_C12(chk, tier, seed):
    cfgs = ["none", "all"] if tier == "quick" else ALL8
    simple(chk, "MC_Lattice", cfgs, ["C12"], ["TypeOK", "DecodeTotal", "LimitsExact", "Emit"])
    # the CTAP1 key handle: its length byte is exact, not exact modulo 256
    simple(chk, "MC_U2f", ["none"], ["C12"], ["TypeOK", "U2fParse", "Emit"], cases="KeyHandleLimitCases")
    return ("every bounded member (user id 64, rp id 256, user icon 128, parameter type 32, allow list 10, exclude list "
            "16, saltEnc 80, saltAuth 32, COSE x/y 32, rpIDHash =32) at 0, 1, limit-1, limit, limit+1, 4*limit inside "
            "the full request of every command that carries it; every u8 / u32 member at 0, 1, 23, 24, max, max+1, "
            "2^32, 2^63, 2^64-1; algorithm identifiers around +-2^31; unbounded borrows at 0..7000 bytes; TLC checks "
            "LimitsExact (limits written from the property, decision from the decoder) and the vectors carry the "
            "model's decoded value, so an accepted value that was shortened, wrapped or clamped is a mismatch")


PLANS.update({"C12": plan_C12})


def plan_C13(chk, tier, seed):
    # "all+log": the same vectors against the crate built with its logging statements compiled in
    # (the over-long-icon path logs what it skips)
    cfgs = ["all", "all+log"] if tier == "quick" else ["none", "all", "all+log", "none+log"]
    deep = "TRUE" if tier == "thorough" else "FALSE"
    simple(chk, "MC_Truncate", cfgs, ["C13"],
           ["TypeOK", "DecodeTotal", "DecodeFaithful", "TypeDecodeFaithful", "ExpectedOutcome", "TruncateOnBoundary", "Emit"],
           extra_constants="    Deep = %s\n" % deep, workers=14)
    return ("names whose four characters straddling the 64-byte cut take every combination of widths 1-4 for every "
            "alignment (pad 54..64), realised with common and with extreme code points of each width; lengths 0..300; "
            "user.name / user.displayName / rp.name stand-alone and inside MakeCredential and CredentialManagement; "
            "user icon and rp icon/url at every length around 128 (thorough: 0..300); 15 kinds of ill-formed UTF-8 at "
            "positions across a 70-byte text in every text member; TLC checks the window lemma (the unsafe block's "
            "precondition), operational window scan == declarative longest-prefix-on-a-boundary, valid UTF-8 and <= 64; "
            "the same vectors against the crate built with its logging statements compiled in and a logger that "
            "formats every record")


def plan_C14(chk, tier, seed):
    cfgs = ["none", "all"]
    mp, mf = (5, 4) if tier == "quick" else (6, 5)
    simple(chk, "MC_Filter", cfgs, ["C14"],
           ["TypeOK", "DecodeTotal", "DecodeFaithful", "TypeDecodeFaithful", "FilterInOrder", "Emit"],
           extra_constants="    MaxP = %d\n    MaxF = %d\n" % (mp, mf))
    # identifiers beyond 32 bits that are congruent to the known ones (a wider integer narrowed by a cast)
    simple(chk, "MC_Lattice", ["all"], ["C14"], ["TypeOK", "DecodeTotal", "LimitsExact", "Emit"], cases="ParamAlgCases")
    # entries whose members come in another order, entries followed by other entries and parameters
    simple(chk, "MC_Requests", ["all"], ["C14"], ["TypeOK", "DecodeTotal", "DecodeFaithful", "Emit"], cases="OrderCases")
    chk.exhaustive = True
    return ("ALL lists of credential parameters of length 0..%d over {ES256, EdDSA, unknown algorithm, ES256 with "
            "unknown type} and ALL attestation-format lists of length 0..%d over {packed, none, tpm, other} inside "
            "MakeCredential / GetAssertion, algorithm identifiers across the i32 range x type strings of 0..32 bytes, "
            "lists of up to 64 entries; TLC checks FilterInOrder (declarative filter) against the decoder's loop; "
            "exhaustive over the stated list alphabets on both sides" % (mp, mf))


PLANS.update({"C13": plan_C13, "C14": plan_C14})


def plan_C06(chk, tier, seed):
    cfgs = ["all"] if tier == "quick" else ["none", "all", "tpp"]
    deep = "TRUE" if tier == "thorough" else "FALSE"
    simple(chk, "MC_Unknown", cfgs, ["C06"], ["TypeOK", "DecodeTotal", "UnknownSkipped", "Emit"],
           extra_constants="    Deep = %s\n" % deep, workers=14)
    return ("an unknown text-keyed member inserted into every extensible map (options, both extension maps, rp, user, "
            "descriptors in allow / exclude lists and in credential-management parameters, parameter entries) of the "
            "full MakeCredential / GetAssertion / CredentialManagement requests: every unknown value (integers of every "
            "width incl. 64-bit, negative and non-shortest, strings of 0..256 bytes, nested arrays and maps exhaustively "
            "to depth 2 (thorough) plus a depth-16 chain, tags incl. nested and 64-bit, half/single/double floats, every "
            "kind of simple value, real-world extras) at the first and last position, and every position x every "
            "real-world key for five values; TLC checks decode(with) == decode(without) on the model")


PLANS.update({"C06": plan_C06})


def plan_C07(chk, tier, seed):
    cfgs = ["none", "all"]
    deep = "TRUE" if tier == "thorough" else "FALSE"
    simple(chk, "MC_AuthData", cfgs, ["C07"], ["TypeOK", "AuthDataLayout", "OutputCanonical", "Emit"],
           extra_constants="    Deep = %s\n" % deep)
    value_traces(chk, "all", "MC_AuthData", "MC_Cases", 1500 if tier == "quick" else 30000, seed, "C07.values",
                 extra="    Deep = FALSE\n")
    return ("16 flag sets x 8 counters x 2 flavours; attested credential data with aaguid of 0/16/17 bytes, public key "
            "of 0/77/200 bytes and credential-id lengths 0..8, +-3 around every fit/overflow frontier (thorough: every "
            "length 0..700) and 65534..70000; every subset of extension outputs in both flavours, also combined with "
            "attested data at the frontier; TLC checks the layout with an independent inverse (ParseBack at fixed "
            "offsets) and the exact fit/overflow decision; vectors replayed through AuthenticatorData::serialize; the "
            "generic type also instantiated with a caller-defined extension-output type (two byte strings of up to "
            "400 bytes) whose encoding runs across the 676-byte capacity")


def plan_C08(chk, tier, seed):
    simple(chk, "MC_U2f", ["none"], ["C08"], ["TypeOK", "U2fParse", "Emit"], workers=12)
    # byte-level mutations of those APDUs (framing included), every event validated by the trace specification
    seeds = os.path.join(WORK, "tlc", "C08.MC_U2f.MC_Cases.none.vec")
    drive_and_validate(chk, "none", "mutate:" + seeds, 2000 if tier == "quick" else 40000, seed, ENC_PROPS, "C08.mutate", shards=6)
    return ("every class byte 0x00..0xFF x instruction classes x data; all 256 instructions x {class 0, 1}; all 256 P1 "
            "(x P2 0/255) for instructions 1-3; 30 data classes (0..256 bytes, authenticate bodies with consistent and "
            "inconsistent key-handle length bytes up to 255/256) x the four ISO 7816-4 length encodings; malformed "
            "framings; TLC checks the decision list (U2fParse) and the Factorisation lemma that makes the axis-wise "
            "enumeration complete; both entry points (CommandView and &Command) are run for every vector")


def plan_C09(chk, tier, seed):
    deep = "TRUE" if tier == "thorough" else "FALSE"
    simple(chk, "MC_U2fResp", ["none"], ["C09"], ["TypeOK", "U2fEncode", "Emit"], extra_constants="    Deep = %s\n" % deep)
    seeds = os.path.join(WORK, "tlc", "C09.MC_U2fResp.MC_Cases.none.vec")
    drive_and_validate(chk, "none", "mutate:" + seeds, 1500 if tier == "quick" else 30000, seed, ENC_PROPS, "C09.values", shards=6)
    return ("register / authenticate / version responses with part lengths chosen so that the total crosses every "
            "instantiated buffer capacity (0..80, 255..258, 320..330, 1024, 1100, 1500) within +-2 and falls inside "
            "every part in turn, pre-filled buffers of 0/1/7 bytes, counters at every byte boundary, all header / "
            "presence extremes, key-handle lengths up to 255; register::Response::new")


def plan_C10(chk, tier, seed):
    # "all+log": the same vectors against the crate built with its logging statements compiled in
    simple(chk, "MC_Dispatch", ["none", "all", "all+log"], ["C10"], ["TypeOK", "ExactlyOneHandler", "Emit"])
    # the dictionary of the source and every member once per sub-command
    simple(chk, "MC_Dispatch", ["all", "all+log"] if tier == "quick" else ["none", "all", "all+log"], ["C10"],
           ["TypeOK", "ExactlyOneHandler", "Emit"], cases="MC_CasesDict" if tier == "quick" else "MC_CasesDictDeep", workers=14)
    # complete exchanges: decode -> dispatch -> handler -> encode, accepted and rejected requests
    simple(chk, "MC_Session", ["all"] if tier == "quick" else ["none", "all"], ["C10"],
           ["TypeOK", "DecodeTotal", "ExchangeDispatch", "ExchangeAnswer", "Emit"])
    return ("10 CTAP2 request variants (three vendor codes, both credential-management codes) x success and six "
            "distinct handler errors x authenticators with and without a large-blobs handler, 4 CTAP1 requests x "
            "success and three status words; a recording mock logs every handler invocation with the projected "
            "arguments; both entry points (call_ctap2 / call_ctap1 and Rpc::call) are run and compared; every member of "
            "every request over the lattice of its type, every pair at the extremes and every triple at the upper "
            "ends (dispatch must not depend on what the request carries); the same vectors against the crate built "
            "with its logging statements compiled in")


PLANS.update({"C07": plan_C07, "C08": plan_C08, "C09": plan_C09, "C10": plan_C10})


def plan_C15(chk, tier, seed):
    cfgs = ["none", "all"] if tier == "quick" else ALL8
    simple(chk, "MC_RoundTrip", cfgs, ["C15"], ["TypeOK", "RoundTrip", "TypeDecodeFaithful", "OutputCanonical", "Emit"])
    # the response side through ctap2::Response::serialize, into buffers that are not fresh
    reused_buffers(chk, "C15")
    # the request side through ctap2::Request::deserialize as well (what the type-level decoder returns can
    # still be rewritten there): every member over its lattice once per sub-command and per protocol
    simple(chk, "MC_Requests", ["all"], ["C15"], ["TypeOK", "DecodeTotal", "DecodeFaithful", "Emit"], cases="RtModeCases", workers=14)
    return ("every bidirectional type (ClientPin / CredentialManagement (+ parameters) / LargeBlobs requests; GetInfo / "
            "ClientPin / LargeBlobs responses; hmac-secret input; options; three extension maps; GetInfo options and "
            "certifications; rp, user, descriptors, parameters; COSE keys; all string- and number-valued enumerations) "
            "over the member-subset and value generators: from the model's canonical bytes the real code must decode "
            "the value AND re-encode to the same bytes, and for constructible types the value built through the "
            "public API must encode to those bytes; the rp icon exception is asserted as such; the response side also "
            "through ctap2::Response::serialize into buffers that are not fresh (what comes out must carry the "
            "key/value pairs of the value sent)")


def plan_C16(chk, tier, seed):
    cfgs = ALL8 + ["all+arb"]
    inv = ["TypeOK", "FeatureMonotone", "Emit"]
    vecs = {}
    base_obs = {}
    wire_base = {}
    for cfg in cfgs:
        run = "C16.MC_Features.%s" % cfg
        r = tlc("MC_Features", scenario_cfg(cfg, "MC_Cases", inv), run, workers=8, timeout=1800)
        if not r["ok"]:
            raise ToolError("TLC %s failed (model-level):\n%s" % (run, "\n".join(r["log"][-40:])))
        log("TLC %s: %d distinct states, %d vectors, %.1fs" % (run, r["distinct"], r["n_vec"], r["wall"]))
        chk.add_tlc(r)
        vecs[cfg] = sorted(open(r["vec_path"]).read().splitlines())
        main_ok = True
        try:
            # DIFFERENTIAL judgement: the property compares configurations with each other.  A vector on
            # which the real code deviates from the model in the same way under the empty configuration
            # is broken for another reason (another property's business) and is not a C16 violation; a
            # vector whose observation under this configuration differs from the one under the empty
            # configuration is, and is then adjudicated by the trace specification as usual.
            summary, recs = replay(cfg, r["vec_path"], run + ".full", full=True, props=["C16"])
            if summary.get("aborted") or summary.get("hang_at") is not None:
                judge_vectors(chk, cfg, r, run, ["C16"])
            else:
                lines = open(r["vec_path"]).read().splitlines()
                obs = {}
                for x in recs:
                    if "line" in x and x["line"] < len(lines):
                        obs[lines[x["line"]]] = (x.get("outcome"), json.dumps(x.get("obs"), sort_keys=True))
                chk.replayed += summary.get("compared", 0)
                bad = [x for x in recs if x.get("outcome") in ("panic", "hang") or x.get("match") is False]
                if cfg == "none":
                    base_obs = obs
                    if bad:
                        chk.notes.append("%d common vectors deviate from the model under the empty configuration "
                                         "(not a matter of C16 unless another configuration behaves differently)" % len(bad))
                else:
                    same = [x for x in bad if obs.get(lines[x["line"]]) == base_obs.get(lines[x["line"]])]
                    bad = [x for x in bad if obs.get(lines[x["line"]]) != base_obs.get(lines[x["line"]])]
                    if same:
                        chk.notes.append("%d common vectors deviate from the model under %s exactly as under the empty "
                                         "configuration (not a C16 matter)" % (len(same), cfg))
                    # also: vectors that MATCH the model here but not under the empty configuration
                    for ln, o in obs.items():
                        if ln in base_obs and base_obs[ln] != o and not any(lines[x["line"]] == ln for x in bad):
                            v = json.loads(ln)
                            v["props"] = ["C16"]
                            chk.violation({"cfg": cfg, "vector": v, "outcome": o[0], "obs": json.loads(o[1]),
                                           "obs_empty_configuration": json.loads(base_obs[ln][1])},
                                          "the same common vector behaves differently under %s and under the empty configuration" % cfg)
                    adjudicate(chk, cfg, bad, run)
        except ToolError as e:
            if "harness build failed" not in str(e):
                raise
            # a public struct changed shape (member removed / renamed / gated): the projection code no
            # longer compiles.  The thin wire-level harness still does; judge on the wire.
            main_ok = False
            chk.notes.append("main harness does not build for %s (API change); judged by the wire-level harness only" % cfg)
        # strictness and whole-configuration round trips, judged on the wire (no struct field is touched)
        wire_cfgs = ALL8 if tier == "thorough" else ["none", "gif", "lb+tpp", "all"]
        if cfg in wire_cfgs:
            for cases, module, inv2 in (("StrictCases", "MC_Features", ["TypeOK", "Emit"]),
                                        ("MC_BaseCases" if tier == "quick" else "MC_Cases", "MC_RoundTrip", ["TypeOK", "RoundTrip", "Emit"])):
                run2 = "C16.%s.%s.%s" % (module, cases, cfg)
                r2 = tlc(module, scenario_cfg(cfg, cases, inv2), run2, workers=8, timeout=1800)
                if not r2["ok"]:
                    raise ToolError("TLC %s failed (model-level):\n%s" % (run2, "\n".join(r2["log"][-40:])))
                chk.add_tlc(r2)
                s3, recs3 = replay_wire(cfg, r2["vec_path"], run2, props=["C16"])
                chk.replayed += s3.get("compared", 0)

                def wkey(x):
                    v = dict(x.get("vector") or {})
                    v.pop("props", None)
                    return json.dumps(v, sort_keys=True)
                if cases != "StrictCases":
                    # differential here too: a round trip that fails in the same way under the empty
                    # configuration is not a matter of C16 (unless the projection harness could not be
                    # built at all, in which case this is the only judgement there is)
                    if cfg == "none":
                        wire_base[cases] = {wkey(x): json.dumps(x.get("obs"), sort_keys=True) for x in recs3}
                        if main_ok:
                            recs3 = []
                    elif main_ok:
                        recs3 = [x for x in recs3 if wire_base.get(cases, {}).get(wkey(x)) != json.dumps(x.get("obs"), sort_keys=True)]
                for x in recs3[:40]:
                    x["cfg"] = cfg
                    chk.violation(x, "wire-level harness: %s %s deviates from the model under configuration %s: diff=%s" % (
                        x.get("op"), (x.get("vector") or {}).get("tag"), cfg, x.get("diff")))
                if s3.get("aborted"):
                    chk.violation({"cfg": cfg, "vector": {"op": "wire", "run": run2}, "outcome": "abort"},
                                  "the wire-level harness aborted: %s" % s3.get("stderr", "")[-300:])
    # the model's own transcripts must be identical in every configuration
    ref = vecs["none"]
    for cfg in cfgs:
        if vecs[cfg] != ref:
            raise ToolError("model transcripts differ between configurations none and %s" % cfg)
    chk.extra["configurations"] = cfgs
    return ("the common corpus (requests and responses built only from members that exist without any feature; every "
            "pair of optional members; LargeBlobs config absent or empty) is decoded / encoded by the model under each "
            "of the 8 feature configurations with the invariant 'exactly as under the empty configuration' "
            "(FeatureMonotone) and a table-level ASSUME over all 64 pairs of configurations; the same vectors are then "
            "replayed by 9 harness builds (8 configurations + all,std,arbitrary) and every build must produce the one "
            "expected transcript")


PLANS.update({"C15": plan_C15, "C16": plan_C16})


def drive_and_validate(chk, cfg, driver, n, seed, props_by_op, run, shards=4):
    """impl -> spec: run a seeded driver against the real code, validate every event with TLC."""
    binp = build(cfg)
    os.makedirs(os.path.join(WORK, "tlc"), exist_ok=True)
    out = os.path.join(WORK, "tlc", run + ".events.ndjson")
    r = sh([binp, "drive", driver, str(seed), str(n), out])
    aborted = r.returncode < 0 or r.returncode in (134, 139)
    if r.returncode != 0 and not aborted:
        raise ToolError("driver %s failed: rc=%s %s" % (driver, r.returncode, r.stdout[-2000:]))
    events = []
    for l in open(out, errors="replace"):
        try:
            events.append(json.loads(l))
        except ValueError:
            pass      # a line cut short by the abort
    if aborted:
        pend = out + ".pending"
        culprit = json.load(open(pend)) if os.path.exists(pend) else {}
        culprit["props"] = props_by_op.get(culprit.get("op"), [])
        chk.violation({"cfg": cfg, "vector": culprit, "outcome": "abort", "stderr": r.stdout[-800:]},
                      "the process ABORTED while the driver ran this input: %s" % r.stdout[-300:])
    for e in events:
        e["cfg"] = cfg
        e["in"]["props"] = props_by_op.get(e["op"], [])
    log("driver %s[%s]: %d events" % (driver, cfg, len(events)))
    # shard over parallel TLC processes
    import concurrent.futures
    shards = max(1, min(shards, (len(events) + 199) // 200))
    per = (len(events) + shards - 1) // shards
    chunks = [events[i * per:(i + 1) * per] for i in range(shards)]
    verdicts, stats = {}, []
    with concurrent.futures.ThreadPoolExecutor(max_workers=shards) as ex:
        futs = [ex.submit(validate, cfg, ch, "%s.s%d" % (run, i)) for i, ch in enumerate(chunks) if ch]
        for f in futs:
            v, st = f.result()
            verdicts.update(v)
            stats += st
    for st in stats:
        chk.add_tlc(st)
    chk.validated += len(events)
    nunspec = 0
    for e in events:
        v = verdicts[e["line"]]
        if v.get("unspec"):
            nunspec += 1
        if chk.prop in v["violated"]:
            what = "%s event rejected by the trace specification: outcome=%s violated=%s msg=%s" % (
                e["op"], e["outcome"], v["violated"], e.get("msg", ""))
            chk.violation(e, what)
    if events:
        chk.sample({k: events[0][k] for k in ("op", "outcome", "in", "obs", "cfg")})
    chk.extra["unspecified_events"] = chk.extra.get("unspecified_events", 0) + nunspec
    if len(events) and nunspec > 0.2 * len(events):
        raise ToolError("more than 20%% of the events of %s ended in an unspecified region (%d of %d)" % (run, nunspec, len(events)))
    return events, verdicts


def plan_C19(chk, tier, seed):
    n = 6000 if tier == "quick" else 60000
    drive_and_validate(chk, "all+arb", "arbitrary", n, seed, {"arbitrary": ["C19"]}, "C19.arbitrary",
                       shards=8)
    return ("the crate's Arbitrary implementations for ctap1::Request, ctap2::Request and authenticator::Request run on "
            "a complete sweep of the string window (windows of 1/4/64 bytes ending after the 1st, 2nd, 3rd byte of a "
            "character x 17 classes of lead byte x 8 classes of the byte after the window), token streams, maximal "
            "requests with position sweeps, "
            "all-zero / all-0xFF inputs of 19 boundary lengths, all 256 single-byte-repeated patterns at two lengths and "
            "seeded random strings biased towards UTF-8 lead / continuation bytes and ill-formed sequences; each run is "
            "one trace event (Generate, then dispatch on a recording mock) validated by TLC: the outcome is 'bytes ran "
            "out' or a value satisfying ValidRequest (UTF-8 of every text member evaluated by the specification on the "
            "raw bytes, capacities, counts, tables) that was formatted, cloned, compared and dispatched to exactly its "
            "handler.  Decided by trace validation only: how arbitrary::Unstructured consumes bytes is not modelled")


PLANS.update({"C19": plan_C19})


PARAM_CMDS = [1, 2, 6, 10, 12, 65]


def prefix_table(chk, cfg, depth, first_bytes, run, workers=12, timeout=3000):
    cfgtext = ("SPECIFICATION Spec\nCONSTANTS\n    F = %s\n    Depth = %d\n    FirstBytes = {%s}\n"
               "INVARIANTS TypeOK DecodeTotal PrefixDeterminism LiveIsRejected Emit\nCHECK_DEADLOCK FALSE\n") % (
        fset(cfg), depth, ", ".join(str(b) for b in first_bytes))
    os.makedirs(os.path.join(WORK, "tlc"), exist_ok=True)
    # the table lines are emitted as "PFX ..." and collected by a small wrapper around tlc()
    r = tlc_collect("Prefix", cfgtext, run, "PFX ", workers=workers, timeout=timeout)
    if not r["ok"]:
        raise ToolError("TLC %s failed (model-level):\n%s" % (run, "\n".join(r["log"][-30:])))
    log("TLC %s: %d distinct states (prefix table of %d entries), %.1fs" % (run, r["distinct"], r["n_lines"], r["wall"]))
    chk.add_tlc(r)
    return r["lines_path"]


def sweep_prefix(chk, cfg, table, depth, run):
    binp = build(cfg)
    out = os.path.join(WORK, "tlc", run + ".sweep.out")
    r = sh([binp, "sweep", "prefix", table, str(depth), "16", out])
    if r.returncode < 0 or r.returncode in (134, 139):
        chk.violation({"cfg": cfg, "vector": {"op": "sweep", "table": table, "depth": depth}, "outcome": "abort",
                       "stderr": r.stdout[-800:]},
                      "the process ABORTED during the whole-space sweep: %s" % r.stdout[-300:])
        return {"checked": 0, "table": 0, "unspec": 0}
    if r.returncode != 0:
        raise ToolError("sweep failed: rc=%s %s" % (r.returncode, r.stdout[-2000:]))
    recs = [json.loads(l) for l in open(out, errors="replace")]
    summary = [x for x in recs if x.get("summary")][0]
    mism = [x for x in recs if not x.get("summary")]
    log("sweep %s[%s]: %d inputs judged against %d table entries, %d mismatches" % (
        run, cfg, summary["checked"], summary["table"], len(mism)))
    chk.extra["swept_inputs"] = chk.extra.get("swept_inputs", 0) + summary["checked"]
    chk.extra["swept_unspecified"] = chk.extra.get("swept_unspecified", 0) + summary["unspec"]
    chk.replayed += summary["checked"]
    tool = [x for x in mism if x.get("tool")]
    if tool:
        raise ToolError("sweep: %s" % tool[0])
    if mism:
        # re-run the deviating inputs as decode2 vectors and let the trace specification judge them
        vp = os.path.join(WORK, "tlc", run + ".sweep.vec")
        with open(vp, "w") as f:
            for x in mism[:200]:
                f.write(json.dumps({"op": "decode2", "tag": "sweep", "wire": x["wire"], "props": ["C01", "C04", "C05", "C11"]}) + "\n")
        s2, recs2 = replay(cfg, vp, run + ".sweep", full=True)
        for i, x in enumerate(recs2):
            x["line"] = i
        verdicts, stats = validate(cfg, recs2, run + ".sweep.adj")
        for st in stats:
            chk.add_tlc(st)
        for x in recs2:
            if chk.prop in verdicts[x["line"]]["violated"]:
                x["cfg"] = cfg
                chk.violation(x, "whole-space sweep: input deviates from the prefix table: %s" % json.dumps(x.get("obs"))[:200])
    return summary


def mutation_traces(chk, cfg, seed_runs, n, seed, run, props_by_op, shards=6):
    # seeds: the vectors TLC generated for the other scenarios
    seeds = os.path.join(WORK, "tlc", run + ".seeds.ndjson")
    with open(seeds, "w") as f:
        for p in seed_runs:
            with open(p) as g:
                for i, line in enumerate(g):
                    f.write(line)
    return drive_and_validate(chk, cfg, "mutate:" + seeds, n, seed, props_by_op, run, shards=shards)


def plan_C04(chk, tier, seed):
    cfgs = ["none", "all"]
    depth = 3 if tier == "quick" else 4
    for cfg in cfgs:
        # (i) the prefix automaton and the complete input space up to the depth
        t_all = prefix_table(chk, cfg, 2, range(256), "C04.prefix.first.%s" % cfg)
        sweep_prefix(chk, cfg, t_all, 2, "C04.prefix.first.%s" % cfg)
        t = prefix_table(chk, cfg, depth, PARAM_CMDS, "C04.prefix.%s" % cfg)
        sweep_prefix(chk, cfg, t, depth, "C04.prefix.%s" % cfg)
        # (ii) structure-level faults and limits (TLC-generated), judged by the C04 predicates
        runs = []
        for module, cases, extra in (("MC_Faults", "MC_Cases", '    SeedKinds = {"min", "full"}\n'),
                                     ("MC_Lattice", "MC_Cases", ""),
                                     ("MC_Requests", "MC_Cases", ""),
                                     ("MC_Requests", "MC_CasesDict", ""),
                                     ("MC_Requests", "OrderCases", ""),
                                     ("MC_Filter", "MC_Cases", "    MaxP = 4\n    MaxF = 4\n"),
                                     ("MC_Unknown", "C04_Cases", "    Deep = %s\n" % ("TRUE" if tier == "thorough" else "FALSE")),
                                     ("MC_Truncate", "C04_Cases", "    Deep = FALSE\n")):
            run = "C04.%s.%s.%s" % (module, cases, cfg)
            if (module in ("MC_Truncate", "MC_Unknown", "MC_Filter") or cases == "OrderCases") and cfg != "all" and tier == "quick":
                continue          # these corpora hardly depend on the feature configuration
            if cases == "MC_CasesDict" and tier == "quick":
                continue          # the dictionary / per-mode corpus is part of the thorough tier (and of C01 / C10 quick)
            r = tlc(module, scenario_cfg(cfg, cases, ["TypeOK", "DecodeTotal", "Emit"], 1, extra), run, workers=14)
            if not r["ok"]:
                raise ToolError("TLC %s failed:\n%s" % (run, "\n".join(r["log"][-30:])))
            chk.add_tlc(r)
            judge_vectors(chk, cfg, r, run, ["C04"])
            if cfg == "all":
                # the same messages against the crate built with its logging statements compiled in:
                # the arguments of a logging statement are code of the decode path too
                judge_vectors(chk, "all+log", r, run + ".log", ["C04"])
            runs.append(r["vec_path"])
        # (iii) byte-level mutation of those messages, every event validated by the trace specification
        n = 2000 if tier == "quick" else 40000
        mutation_traces(chk, cfg, runs, n, seed, "C04.mutate.%s" % cfg, {"decode2": ["C01", "C04", "C05"]},
                        shards=6 if tier == "quick" else 12)
    return ("(i) the byte-feeding automaton: TLC explores every live prefix (all 256 first bytes to 2 bytes; the six "
            "parameter-bearing commands to %d bytes) with DecodeTotal / PrefixDeterminism / LiveIsRejected and emits the "
            "table prefix -> outcome; the harness decodes EVERY byte string up to that length with the real decoder "
            "(panics and aborts are data) and judges it by table lookup; (ii) every single structural fault and every "
            "limit lattice point of C05 / C12, the request corpus of C01, the list corpus of C14, unknown members "
            "of every kind of value (C06) and the text-capacity corpus of C13 (names whose characters straddle the "
            "64-byte cut in every width pattern, icons around 128 bytes); (iii) seeded byte-level mutations (bit flips, interesting bytes, insertions, "
            "deletions, truncations, duplicated and spliced slices, +-1 on length heads) of those messages, each "
            "decoded twice and validated by the trace specification (outcome, determinism, status set, model equality); "
            "the corpora of (ii) also against the crate built with its logging statements compiled in and a logger "
            "that formats every record" % depth)


PLANS.update({"C04": plan_C04})
