"""Per-property plans: which scenarios, configurations and drivers decide each property."""
import json, os
from ctvlib import *


def vectors(chk, module, cases, cfgs, props, invariants, workers=8, timeout=1800, tag=None):
    """TLC scenario -> vectors -> replay on the real code -> adjudicate mismatches with the trace
    specification.  `props`: the properties for which agreement with the model ON THESE VECTORS is
    the property itself."""
    for cfg in cfgs:
        run = "%s.%s.%s.%s" % (chk.prop, module, cases, cfg)
        r = run_scenario(module, cfg, cases, invariants, workers=workers, timeout=timeout, run=run)
        chk.add_tlc(r)
        with open(r["vec_path"]) as f:
            first = f.readline()
            if first:
                v = json.loads(first); v["cfg"] = cfg
                chk.sample(v)
        summary, recs = replay(cfg, r["vec_path"], run, props=props)
        if summary.get("aborted"):
            # find the vector at which the process died
            s2, all_recs = replay(cfg, r["vec_path"], run + ".full", full=True, props=props)
            answered = len(all_recs)
            lines = open(r["vec_path"]).read().splitlines()
            culprit = json.loads(lines[min(answered, len(lines) - 1)])
            chk.violation({"cfg": cfg, "vector": culprit, "outcome": "abort", "stderr": summary.get("stderr", "")},
                          "the process aborted while handling this vector")
            continue
        chk.replayed += summary.get("compared", 0)
        if summary.get("hang_at") is not None:
            for rec in recs:
                if rec.get("outcome") == "hang":
                    rec["cfg"] = cfg
                    chk.violation(rec, "call did not return within 20 s")
        bad = [x for x in recs if x.get("outcome") in ("panic",) or x.get("match") is False]
        adjudicate(chk, cfg, bad, run)


def adjudicate(chk, cfg, bad, run):
    if not bad:
        return
    for i, x in enumerate(bad):
        x["line"] = i
    verdicts, stats = validate(cfg, bad[:400], run + ".adj")
    for st in stats:
        chk.add_tlc(st)
    for x in bad[:400]:
        v = verdicts[x["line"]]
        if chk.prop in v["violated"]:
            x["cfg"] = cfg
            what = "%s: outcome=%s diff=%s tag=%s msg=%s" % (
                x.get("op"), x.get("outcome"), x.get("diff"), (x.get("vector") or {}).get("tag"), x.get("msg", ""))
            chk.violation(x, what)
        else:
            chk.notes.append("vector deviates from the model without violating %s (violated: %s, tag %s)" % (
                chk.prop, v["violated"], (x.get("vector") or {}).get("tag")))
    if len(bad) > 400:
        chk.notes.append("%d further mismatches not adjudicated" % (len(bad) - 400))


def plan_C01(chk, tier, seed):
    cfgs = ["none", "all"] if tier == "quick" else ALL8
    vectors(chk, "MC_Requests", "MC_Cases", cfgs, ["C01"],
            ["TypeOK", "DecodeTotal", "DecodeFaithful", "KeyAttribution", "HostCanonical", "Emit"])
    return ("every subset of optional parameters of every parameter-bearing command, every subset of optional "
            "members of every nested map, full requests, every sub-command; TLC checks DecodeFaithful / "
            "KeyAttribution on the model and emits one vector per case, replayed through "
            "ctap2::Request::deserialize; a vector is non-trivial when it decodes a distinct message")


PLANS = {
    "C01": plan_C01,
}


def replay_one(prop, path):
    rec = json.load(open(path))["record"]
    cfg = rec.get("cfg", "none")
    vec = rec.get("vector") or rec.get("in")
    os.makedirs(os.path.join(WORK, "tlc"), exist_ok=True)
    vp = os.path.join(WORK, "tlc", "replay1.vec")
    open(vp, "w").write(json.dumps(vec) + "\n")
    summary, recs = replay(cfg, vp, "replay1", full=True)
    for i, x in enumerate(recs):
        x["line"] = i
    verdicts, _ = validate(cfg, recs, "replay1.adj")
    bad = [x for x in recs if prop in verdicts[x["line"]]["violated"]]
    print(json.dumps({"observed": [x.get("obs") for x in recs], "verdicts": list(verdicts.values())})[:4000])
    if bad:
        print("VIOLATION property=%s replay=%s" % (prop, path))
        return 1
    return 0
