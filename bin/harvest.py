#!/usr/bin/env python3
"""bin/harvest.py <repo> <out.json> -- a DICTIONARY of the literals in the source under test.

Scans <repo>/src/**/*.rs (the current working tree) with a small Rust lexer and collects
  texts : the bytes of every string, byte-string and char literal (1..48 bytes, no format
          placeholders, no whitespace-only strings),
  ints  : every integer literal in the signed 32-bit range, and its negation (a unary minus is
          not part of the literal).
The scenario modules use them as further candidate values for text members, unknown member names,
identifier look-ups and algorithm identifiers: code that treats ONE particular content specially
(a magic relying-party id, a scheme prefix, an aliased algorithm number) names that content in
its source.  Comments are skipped; tests (`#[cfg(test)] mod`) are not (harmless extra words).
Deterministic: sorted output."""
import json, os, sys


def lex(src):
    """yield ('str', bytes) | ('char', bytes) | ('int', int)"""
    i, n = 0, len(src)
    while i < n:
        c = src[i]
        # comments
        if src.startswith("//", i):
            j = src.find("\n", i)
            i = n if j < 0 else j
            continue
        if src.startswith("/*", i):
            depth, i = 1, i + 2
            while i < n and depth:
                if src.startswith("/*", i):
                    depth += 1; i += 2
                elif src.startswith("*/", i):
                    depth -= 1; i += 2
                else:
                    i += 1
            continue
        # raw strings r"..", r#".."#, br".."
        if c in "rb" and (src.startswith('r"', i) or src.startswith("r#", i) or src.startswith('br"', i) or src.startswith("br#", i)):
            j = i + (2 if src[i] == "b" else 1)
            h = 0
            while j < n and src[j] == "#":
                h += 1; j += 1
            if j < n and src[j] == '"':
                end = src.find('"' + "#" * h, j + 1)
                if end < 0:
                    return
                yield ("str", src[j + 1:end].encode())
                i = end + 1 + h
                continue
        # strings and byte strings
        if c == '"' or (c == "b" and i + 1 < n and src[i + 1] == '"'):
            j = i + (2 if c == "b" else 1)
            out = bytearray()
            while j < n and src[j] != '"':
                if src[j] == "\\":
                    j += 1
                    e = src[j]
                    if e == "n": out.append(10)
                    elif e == "r": out.append(13)
                    elif e == "t": out.append(9)
                    elif e == "0": out.append(0)
                    elif e == "\\": out.append(92)
                    elif e == '"': out.append(34)
                    elif e == "'": out.append(39)
                    elif e == "x":
                        out.append(int(src[j + 1:j + 3], 16)); j += 2
                    elif e == "u":
                        k = src.find("}", j)
                        out += chr(int(src[j + 2:k].replace("_", ""), 16)).encode(); j = k
                    elif e == "\n":
                        while j + 1 < n and src[j + 1] in " \t\n":
                            j += 1
                    j += 1
                else:
                    out += src[j].encode(); j += 1
            yield ("str", bytes(out))
            i = j + 1
            continue
        # char literals (not lifetimes): 'x' '\n' '\u{200D}' b'x'
        if c == "'" or (c == "b" and i + 1 < n and src[i + 1] == "'"):
            j = i + (2 if c == "b" else 1)
            if j < n and src[j] == "\\":
                k = src.find("'", j + 2)
                if 0 < k <= j + 12:
                    body = src[j + 1:k]
                    try:
                        if body[0] == "u":
                            yield ("char", chr(int(body[2:-1].replace("_", ""), 16)).encode())
                        elif body[0] == "x":
                            yield ("char", bytes([int(body[1:3], 16)]))
                        else:
                            yield ("char", {"n": b"\n", "r": b"\r", "t": b"\t", "0": b"\0", "\\": b"\\", "'": b"'", '"': b'"'}.get(body[0], b""))
                    except ValueError:
                        pass
                    i = k + 1
                    continue
            elif j + 1 < n and src[j + 1] == "'":
                yield ("char", src[j].encode())
                i = j + 2
                continue
            i += 1
            continue
        # integer literals
        if c.isdigit() and (i == 0 or not (src[i - 1].isalnum() or src[i - 1] == "_")):
            j = i
            if src.startswith("0x", i) or src.startswith("0X", i):
                j = i + 2
                while j < n and (src[j] in "0123456789abcdefABCDEF_"):
                    j += 1
                txt, base = src[i + 2:j], 16
            elif src.startswith("0b", i):
                j = i + 2
                while j < n and src[j] in "01_":
                    j += 1
                txt, base = src[i + 2:j], 2
            else:
                while j < n and (src[j].isdigit() or src[j] == "_"):
                    j += 1
                txt, base = src[i:j], 10
            # a float or a tuple index: skip
            if j < n and src[j] == "." and j + 1 < n and src[j + 1].isdigit():
                i = j + 1
                continue
            try:
                yield ("int", int(txt.replace("_", ""), base))
            except ValueError:
                pass
            while j < n and (src[j].isalnum() or src[j] == "_"):
                j += 1      # type suffix
            i = j
            continue
        # identifiers (so that digits inside them are not literals)
        if c.isalpha() or c == "_":
            j = i
            while j < n and (src[j].isalnum() or src[j] == "_"):
                j += 1
            i = j
            continue
        i += 1


def harvest(repo):
    texts, ints = set(), set()
    root = os.path.join(repo, "src")
    for d, _, files in sorted(os.walk(root)):
        for f in sorted(files):
            if not f.endswith(".rs"):
                continue
            src = open(os.path.join(d, f), encoding="utf-8", errors="replace").read()
            for kind, v in lex(src):
                if kind in ("str", "char"):
                    if not (1 <= len(v) <= 48):
                        continue
                    if kind == "str" and (b"{" in v or b"}" in v or b"\n" in v or not v.strip()):
                        continue
                    if kind == "char" and len(v) == 1 and v.isalnum():
                        continue
                    texts.add(bytes(v))
                else:
                    if v <= 2147483647:
                        ints.add(v)
                    if v <= 2147483648:
                        ints.add(-v)
    return {"texts": [list(t) for t in sorted(texts)], "ints": sorted(ints)}


if __name__ == "__main__":
    d = harvest(sys.argv[1])
    json.dump(d, open(sys.argv[2], "w"))
    print("dictionary: %d texts, %d integers" % (len(d["texts"]), len(d["ints"])), file=sys.stderr)
