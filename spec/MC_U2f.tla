-------------------------------- MODULE MC_U2f --------------------------------
(* Scenario: CTAP1 request parsing.  Axis-wise exhaustive header space (all     *)
(* class bytes, all 256 instructions, all 256 P1) x data-length boundaries x    *)
(* four length encodings; malformed framing.  C08.                              *)
EXTENDS Ctap, Gen

Data64 == Pattern(110, 64)
\* authenticate data: challenge(32) appId(32) L(1) keyHandle(L) with a consistent or inconsistent length byte
AuthData(k, lenByte) == Pattern(111, 64) \o <<lenByte>> \o Pattern(112, k)

DataClasses ==
    {<< >>, <<1>>, Pattern(113, 31), Pattern(113, 32), Pattern(113, 33), Pattern(113, 63), Data64, Pattern(113, 65),
     Pattern(113, 66), Pattern(113, 255), Pattern(113, 256)}
    \cup {AuthData(k, k) : k \in {0, 1, 2, 16, 64, 128, 190}}
    \cup {AuthData(k, (k + 1) % 256) : k \in {0, 1, 64}}
    \cup {AuthData(k, (k + 255) % 256) : k \in {1, 64}}
    \cup {AuthData(254, 254), AuthData(255, 255), AuthData(255, 254), AuthData(256, 0), AuthData(256, 255)}

Encs == {"short", "shortLe", "ext", "extLe"}
EncsFor(d) == {e \in Encs : Len(d) = 0 \/ CanEncode(Len(d), e)}

ACase(cla, ins, p1, p2, d, e, tag) ==
    [op |-> "apdu", tag |-> tag, wire |-> BuildApdu(cla, ins, p1, p2, d, e)]

InsClasses == {0, 1, 2, 3, 4, 164}       \* 164 = 0xA4 SELECT, a named ISO instruction
P1Classes  == {0, 3, 7, 8, 128}
SomeData   == {<< >>, Data64, AuthData(16, 16), Pattern(113, 65)}

\* every class byte (0xFF cannot be framed and is included as a framing error)
ClassAxis == {ACase(cla, ins, p1, 0, d, "extLe", "axis-class") : cla \in 0..255, ins \in InsClasses, p1 \in {0, 3}, d \in {Data64, AuthData(16, 16)}}
\* every instruction
InsAxis == {ACase(cla, ins, p1, 0, d, "ext", "axis-ins") : cla \in {0, 1}, ins \in 0..255, p1 \in {0, 7}, d \in SomeData}
\* every P1 (and a few P2)
P1Axis == {ACase(0, ins, p1, p2, d, "short", "axis-p1") : ins \in {1, 2, 3}, p1 \in 0..255, p2 \in {0, 255},
              d \in {Data64, AuthData(16, 16), AuthData(1, 2)}}
\* every data class x encoding
DataAxis ==
    UNION {{ACase(0, ins, p1, 0, d, e, "axis-data") : e \in EncsFor(d), ins \in {1, 2, 3, 4}, p1 \in {0, 3, 7, 8}} : d \in DataClasses}

\* every value of the expected-length field Le (the raw message format does not look at it): short
\* and extended, with and without data
LeCase(ins, p1, d, ext, le) ==
    LET n == Len(d) IN
    [op |-> "apdu", tag |-> "axis-le",
     wire |-> <<0, ins, p1, 0>> \o
              (IF ext THEN (IF n = 0 THEN <<0, le \div 256, le % 256>> ELSE <<0, n \div 256, n % 256>> \o d \o <<le \div 256, le % 256>>)
               ELSE (IF n = 0 THEN <<le>> ELSE <<n>> \o d \o <<le>>))]
LeAxis ==
    {LeCase(ins, p1, d, FALSE, le) : ins \in {1, 2, 3}, p1 \in {0, 3}, d \in {<< >>, Data64, AuthData(16, 16)}, le \in {0, 1, 2, 5, 6, 7, 64, 255}}
    \cup {LeCase(ins, p1, d, TRUE, le) : ins \in {1, 2, 3}, p1 \in {0, 3}, d \in {<< >>, Data64, AuthData(16, 16)}, le \in {0, 1, 5, 6, 7, 255, 256, 65535}}

\* the key handle's own limit: its length byte says 0..255, and what follows must be exactly that
\* many bytes -- not that many modulo 256 (C12: limits are exact, accepted values are delivered whole)
KeyHandleLimitCases ==
    {ACase(0, 2, p1, 0, AuthData(kl[1], kl[2]), "ext", "limit:keyHandle") :
        p1 \in {3, 7, 8},
        kl \in {<<0, 0>>, <<1, 1>>, <<254, 254>>, <<255, 255>>, <<255, 254>>, <<256, 0>>, <<256, 255>>, <<257, 1>>, <<320, 64>>, <<511, 255>>, <<512, 0>>, <<1000, 232>>}}

\* malformed framing: too short, inconsistent Lc, reserved class
Malformed ==
    {[op |-> "apdu", tag |-> "malformed", wire |-> w] :
        w \in {<< >>, <<0>>, <<0, 1, 0>>, <<0, 1, 0, 0, 5, 1, 2>>, <<0, 1, 0, 0, 0, 0>>, <<0, 1, 0, 0, 0, 0, 5, 1>>,
               <<255, 1, 0, 0>>, <<0, 3, 0, 0, 0, 0, 0, 0, 0>>, <<0, 1, 0, 0, 1>> \o Data64,
               <<0, 2, 3, 0, 0, 0, 70>> \o AuthData(4, 4), <<0, 1, 0, 0, 64>> \o Data64 \o <<0, 0>>}}

MC_Cases == ClassAxis \cup InsAxis \cup P1Axis \cup DataAxis \cup LeAxis \cup Malformed

(***************************************************************************)
(* C08 on the model: the decision depends on the header only through the   *)
(* classes the property names (so the axis-wise enumeration is complete)   *)
(***************************************************************************)
ClassOfCla(c) == IF c = 0 THEN 0 ELSE 1
ClassOfIns(i) == IF i \in {1, 2, 3} THEN i ELSE 0
ClassOfP1(p)  == IF p \in {3, 7, 8} THEN p ELSE 0
Rep3(cc, ic, pc) == <<IF cc = 0 THEN 0 ELSE 1, IF ic = 0 THEN 4 ELSE ic, IF pc = 0 THEN 0 ELSE pc>>

Factorisation ==
    \A d \in SomeData \cup {AuthData(1, 2)} :
      /\ \A cla \in 0..254, ins \in InsClasses, p1 \in P1Classes :
            LET r == Ctap1Request(cla, ins, p1, d)
                q == Ctap1Request(ClassOfCla(cla), ins, p1, d)
            IN  r.ok = q.ok /\ r.sw = q.sw /\ r.req = q.req
      /\ \A ins \in 0..255, p1 \in P1Classes :
            LET r == Ctap1Request(0, ins, p1, d)
                q == Ctap1Request(0, IF ClassOfIns(ins) = 0 THEN 4 ELSE ins, p1, d)
            IN  r.ok = q.ok /\ r.sw = q.sw /\ r.req = q.req
      /\ \A p1 \in 0..255, ins \in {1, 3, 4} :
            LET r == Ctap1Request(0, ins, p1, d)
                q == Ctap1Request(0, ins, 0, d)
            IN  r.ok = q.ok /\ r.sw = q.sw /\ r.req = q.req

ASSUME Factorisation

U2fParse ==
    phase = "decoded" /\ case.op = "apdu" /\ req.framed =>
        LET f == Framing(wire) IN
        /\ (f.cla # 0 => ~req.ok /\ req.sw = SW_ClassNotSupported)
        /\ (f.cla = 0 /\ f.ins = 3 => req.ok /\ req.req.variant = "Version")
        /\ (f.cla = 0 /\ f.ins = 1 => (req.ok <=> Len(f.data) = 64))
        /\ (f.cla = 0 /\ f.ins = 2 =>
              (req.ok <=> (f.p1 \in {3, 7, 8} /\ Len(f.data) >= 65 /\ Len(f.data) = 65 + f.data[65])))
        /\ (f.cla = 0 /\ f.ins \notin {1, 2, 3} => ~req.ok /\ req.sw = SW_InstructionNotSupported)
        /\ (req.ok /\ req.req.variant = "Authenticate" =>
              /\ req.req.challenge = SubSeq(f.data, 1, 32) /\ req.req.appId = SubSeq(f.data, 33, 64)
              /\ req.req.keyHandle = SubSeq(f.data, 66, Len(f.data)) /\ req.req.control = f.p1)
        /\ (req.ok /\ req.req.variant = "Register" =>
              req.req.challenge = SubSeq(f.data, 1, 32) /\ req.req.appId = SubSeq(f.data, 33, 64))
=============================================================================
