---------------------------- MODULE MC_Responses ----------------------------
(* Scenario: member subsets of every response kind, statement shapes, COSE  *)
(* key kinds, all pairs of members of every serialisable map type.          *)
(* C02, C03 (and the corpus of C15 / C17).                                  *)
EXTENDS Ctap, Gen, Lattice

BIG == 7609

\* subsets: exhaustive where the member count allows, otherwise {}, pairs, full
SubsetsAuto(min, vals) ==
    IF Cardinality(DOMAIN vals) <= 9 THEN SubsetsOf(min, vals) ELSE SmallSubsetsOf(min, vals)

GetInfoCases ==
    {RespCase("GetInfo", v, BIG, "getinfo-subset") : v \in SubsetsAuto(GiMin, GiOptionalVals(F))}
    \cup {RespCase("GetInfo", [GiMin EXCEPT !.options = <<o>>], BIG, "getinfo-options-subset") :
             o \in SubsetsAuto(GiOptMin, GiOptOptVals(F))}
    \cup (IF GIF \in F
          THEN {RespCase("GetInfo", [GiMin EXCEPT !.certifications = <<c>>], BIG, "certifications-subset") :
                   c \in SubsetsOf(CertMin, CertOptVals)}
          ELSE {})
    \* the size-related members against each other at the values real transports have
    \cup {RespCase("GetInfo", [GiFull(F) EXCEPT !.maxMsgSize = <<BN(m)>>, !.maxSerializedLargeBlobArray = <<BN(a)>>], BIG, "getinfo-size-grid") :
             m \in {64, 1024, 1200, 3072, 3073, 4096, 7609, 7610, 65536}, a \in {0, 1024, 3008, 3009, 4096, 65536}}


McCases ==
    {RespCase("MakeCredential", v, BIG, "mc-subset") : v \in SubsetsOf(McRespMin, McRespOptVals)}
    \cup {RespCase("MakeCredential", [McRespMin EXCEPT !.attStmt = <<st>>, !.fmt = f], BIG, "mc-stmt") :
             st \in {StmtNone, StmtPacked, StmtX5c}, f \in FormatNames}

GaCases ==
    UNION {{RespCase(k, v, BIG, "ga-subset") : v \in SubsetsOf(GaRespMin, GaRespOptVals)} :
              k \in {"GetAssertion", "GetNextAssertion"}}
    \cup {RespCase("GetAssertion", [GaRespMin EXCEPT !.attStmt = <<st>>], BIG, "ga-stmt") :
             st \in {StmtNone, StmtPacked, StmtX5c}}
    \cup {RespCase("GetAssertion", [GaRespMin EXCEPT !.user = <<u>>], BIG, "ga-user-subset") :
             u \in SubsetsOf(UserMin, UserOptVals)}

CpCases == {RespCase("ClientPin", v, BIG, "cp-subset") : v \in SubsetsOf(CpRespMin, CpRespOptVals)}

CmCases ==
    {RespCase("CredentialManagement", v, BIG, "cm-subset") : v \in SubsetsAuto(CmRespMin, CmRespOptVals(F))}
    \cup {RespCase("CredentialManagement", [CmRespMin EXCEPT !.publicKey = <<CoseOfKind(k)>>], BIG, "cm-cose-kind") :
             k \in CoseKinds}
    \cup {RespCase("CredentialManagement", [CmRespMin EXCEPT !.rp = <<r>>], BIG, "cm-rp-subset") :
             r \in {[RpMin EXCEPT !.name = n] : n \in {GNone, <<AsciiPattern(2, 9)>>}}}
    \cup {RespCase("CredentialManagement", [CmRespMin EXCEPT !.credProtect = <<p>>], BIG, "cm-credprotect") :
             p \in CredProtectPolicies}

LbCases ==
    {RespCase("LargeBlobs", [config |-> c], BIG, "lb") :
        c \in {GNone, << << >> >>} \cup (IF LB \in F THEN {<<Pattern(64, 1)>>, <<Pattern(64, 300)>>, <<Pattern(64, 3008)>>} ELSE {})}

BodylessCases == {RespCase(k, << >>, BIG, "bodyless") : k \in BodylessResponses}

\* integer members across the head-width thresholds (as values), list and string members at
\* their capacities
LatticeCases ==
    {RespCase("GetInfo", [GiMin EXCEPT !.maxMsgSize = <<n>>], BIG, "int-lattice") :
        n \in {BN(0), BN(23), BN(24), BN(255), BN(256), BN(65535), BN(65536), BNMaxU32, BNSucc(BNMaxU32), BNMaxU64}}
    \cup {RespCase("CredentialManagement", [CmRespMin EXCEPT !.totalRPs = <<n>>], BIG, "int-lattice") :
        n \in {BN(0), BN(23), BN(24), BN(255), BN(256), BN(65535), BN(65536), BNMaxU32}}
    \cup {RespCase("ClientPin", [CpRespMin EXCEPT !.pinRetries = <<n>>], BIG, "int-lattice") : n \in {0, 23, 24, 255}}
    \cup {RespCase("ClientPin", [CpRespMin EXCEPT !.pinUvAuthToken = <<Pattern(1, n)>>], BIG, "bytes-lattice") :
        n \in {0, 1, 23, 24, 47, 48}}
    \cup {RespCase("GetAssertion", [GaRespMin EXCEPT !.authData = Pattern(2, n)], BIG, "bytes-lattice") :
        n \in {0, 37, 255, 256, 675, 676}}
    \cup {RespCase("GetAssertion", [GaRespMin EXCEPT !.credential = [id |-> Pattern(3, n), type |-> AsciiPattern(1, m)]], BIG, "bytes-lattice") :
        n \in {0, 24, 255}, m \in {0, 10, 32}}
    \cup {RespCase("GetInfo", [GiMin EXCEPT !.versions = vs], BIG, "list-lattice") :
        vs \in {<< >>, <<N_FIDO_2_1>>, <<N_FIDO_2_0, N_FIDO_2_1, N_FIDO_2_1_PRE, N_U2F_V2>>}}
    \cup {RespCase("GetInfo", [GiMin EXCEPT !.algorithms = <<a>>], BIG, "list-lattice") :
        a \in {<< >>, <<ALG_EdDSA>>, <<ALG_EdDSA, ALG_ES256>>}}
    \cup {RespCase("GetInfo", [GiMin EXCEPT !.aaguid = Pattern(4, n)], BIG, "bytes-lattice") : n \in {0, 15, 16}}

\* nested public types serialised on their own: every pair of members
TypePairs ==
    {TypeEncCase("Rp", r, "rp-pairs") : r \in {[RpMin EXCEPT !.name = n] : n \in {GNone, <<AsciiPattern(2, 9)>>}}}
    \cup {TypeEncCase("User", u, "user-pairs") : u \in SubsetsOf(UserMin, UserOptVals)}
    \cup {TypeEncCase("Desc", DescOwned(1), "desc")}
    \cup {TypeEncCase("Param", ParamOf(a), "param") : a \in {ALG_ES256, ALG_EdDSA, -257, -65537, 0, 23, 24}}
    \cup {TypeEncCase("McExt", e, "mcext-pairs") : e \in SubsetsOf(McExtMin, McExtOptVals(F))}
    \cup {TypeEncCase("GaExtOut", e, "gaextout-pairs") :
             e \in SubsetsOf([hmacSecret |-> GNone, thirdPartyPayment |-> GNone],
                             IF TPP \in F THEN [hmacSecret |-> Pattern(65, 64), thirdPartyPayment |-> TRUE]
                                          ELSE [hmacSecret |-> Pattern(65, 64)])}
    \cup {TypeEncCase("GetInfoOptions", o, "getinfo-options-pairs") : o \in SubsetsAuto(GiOptMin, GiOptOptVals(F))}
    \cup (IF GIF \in F THEN {TypeEncCase("Certifications", c, "certifications-pairs") : c \in SubsetsOf(CertMin, CertOptVals)} ELSE {})
    \cup {TypeEncCase("CoseAny", CoseOfKind(k), "cose-kind") : k \in CoseKinds}
    \cup {TypeEncCase("AttStmt", st, "attstmt") : st \in {StmtNone, StmtPacked, StmtX5c}}

\* every boolean member with both values (an omitted `false` is not the same as `false`)
BoolCases ==
    {RespCase("MakeCredential", [McRespMin EXCEPT !.epAtt = <<b>>], BIG, "bool") : b \in BOOLEAN}
    \cup {RespCase("GetAssertion", [GaRespMin EXCEPT !.epAtt = <<b>>, !.userSelected = <<c>>], BIG, "bool") : b, c \in BOOLEAN}
    \cup {RespCase("ClientPin", [CpRespMin EXCEPT !.powerCycleState = <<b>>], BIG, "bool") : b \in BOOLEAN}
    \cup {RespCase("GetInfo", [GiMin EXCEPT !.options = <<[GiOptMin EXCEPT ![k] = <<b>>]>>], BIG, "bool") :
             k \in DOMAIN GiOptOptVals(F), b \in BOOLEAN}
    \cup {RespCase("GetInfo", [GiMin EXCEPT !.options = <<[GiOptMin EXCEPT !.rk = b, !.up = c]>>], BIG, "bool") : b, c \in BOOLEAN}
    \cup (IF GIF \in F THEN {RespCase("GetInfo", [GiMin EXCEPT !.forcePINChange = <<b>>, !.longTouchForReset = <<c>>], BIG, "bool") : b, c \in BOOLEAN} ELSE {})
    \cup (IF TPP \in F THEN {RespCase("CredentialManagement", [CmRespMin EXCEPT !.thirdPartyPayment = <<b>>], BIG, "bool") : b \in BOOLEAN} ELSE {})
    \cup {TypeEncCase("McExt", [McExtMin EXCEPT !.hmacSecret = <<b>>, !.largeBlobKey = <<c>>], "bool") : b, c \in BOOLEAN}

\* every member of every response (nested ones too), one at a time, over the lattice of its TYPE
ValueLattice ==
    UNION {{RespCase(k, v, BIG, "value-lattice") : v \in OneAtATime(RespSchema(k), F, FALSE)} :
              k \in {"GetInfo", "MakeCredential", "GetAssertion", "ClientPin", "CredentialManagement", "LargeBlobs"}}

\* every PAIR of members at every combination of the extremes of their types
PairLattice ==
    UNION {{RespCase(k, v, BIG, "pair-lattice") : v \in TwoAtATime(RespSchema(k), F, FALSE)} :
              k \in {"GetInfo", "MakeCredential", "GetAssertion", "ClientPin", "CredentialManagement"}}
    \cup {RespCase("GetAssertion", [GaRespMin EXCEPT !.user = <<u>>], BIG, "pair-lattice-nested") : u \in TwoAtATime("User", F, FALSE) \cup RelatedPairs("User", F, FALSE)}
    \cup {RespCase("CredentialManagement", [CmRespMin EXCEPT !.rp = <<r>>], BIG, "related-pair-nested") : r \in RelatedPairs("Rp", F, FALSE)}
    \cup {RespCase("CredentialManagement", [CmRespMin EXCEPT !.user = <<u>>], BIG, "related-pair-nested") : u \in RelatedPairs("User", F, FALSE)}
    \cup UNION {{RespCase(k, v, BIG, "related-pair") : v \in RelatedPairs(RespSchema(k), F, FALSE)} :
                 k \in {"GetInfo", "MakeCredential", "GetAssertion", "ClientPin", "CredentialManagement"}}
    \cup {RespCase("GetInfo", [GiMin EXCEPT !.options = <<o>>], BIG, "pair-lattice-nested") : o \in TwoAtATime("GetInfoOptions", F, FALSE)}

\* every TRIPLE of members at the upper ends of their types
TripleLattice ==
    UNION {{RespCase(k, v, BIG, "triple-lattice") : v \in ThreeAtATime(RespSchema(k), F, FALSE)} :
              k \in {"MakeCredential", "GetAssertion", "ClientPin", "CredentialManagement"}}
TripleLatticeBig ==      \* some 2000 triples of the 24 GetInfo members: the thorough tier
    {RespCase("GetInfo", v, BIG, "triple-lattice") : v \in ThreeAtATime("GetInfoResp", F, FALSE)}

MC_Cases == TripleLattice \cup ValueLattice \cup PairLattice \cup BoolCases \cup GetInfoCases \cup McCases \cup GaCases \cup CpCases \cup CmCases \cup LbCases \cup BodylessCases
            \cup LatticeCases \cup TypePairs
MC_CasesDeep == MC_Cases \cup TripleLatticeBig
LatticeAll == ValueLattice \cup PairLattice
=============================================================================
