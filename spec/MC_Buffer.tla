------------------------------ MODULE MC_Buffer ------------------------------
(* Scenario: responses whose complete message length L is tuned through a     *)
(* variable-length member so that L - N takes every value in -3..2 for every  *)
(* instantiated transport capacity N; all-unset and body-less responses at    *)
(* the smallest capacities; arbitrary previous buffer contents; two-exchange  *)
(* histories in which the buffer is reused.  C17.                             *)
EXTENDS Ctap, Gen, Lattice

Caps == (1..600) \cup (1022..1026) \cup (3070..3074) \cup {1024, 3072, 7609}

\* families of responses indexed by the length n of a variable member
CpTok(n)    == [kind |-> "ClientPin", v |-> [CpRespMin EXCEPT !.pinUvAuthToken = <<Pattern(1, n)>>]]
CpKeyTok(n) == [kind |-> "ClientPin", v |-> [CpRespMin EXCEPT !.pinUvAuthToken = <<Pattern(1, n)>>,
                                                              !.keyAgreement = <<EcdhKey(56)>>]]
GaAuth(n)   == [kind |-> "GetAssertion", v |-> [GaRespMin EXCEPT !.authData = Pattern(2, n)]]
GaBig(n)    == [kind |-> "GetNextAssertion",
                v |-> [GaRespMin EXCEPT !.authData = Pattern(2, n), !.attStmt = <<[StmtPacked EXCEPT !.x5c = << <<Pattern(3, 1024)>> >>]>>,
                                        !.user = <<UserFull>>]]
LbCfg(n)    == [kind |-> "LargeBlobs", v |-> [config |-> <<Pattern(4, n)>>]]
McAuth(n)   == [kind |-> "MakeCredential", v |-> [McRespMin EXCEPT !.authData = Pattern(5, n)]]

\* [resp, len]: the message length is computed once per family member
Fam(f(_), range) == {[resp |-> f(n), len |-> Len(EncodeResponse(f(n), F))] : n \in range}

Families ==
    Fam(CpTok, 0..48) \cup Fam(CpKeyTok, 0..48) \cup Fam(GaAuth, 0..676) \cup Fam(McAuth, 0..676)
    \cup Fam(GaBig, {0, 1, 2, 3, 4, 5, 6, 7, 8, 300, 676})
    \cup (IF LB \in F THEN Fam(LbCfg, (0..40) \cup (240..260) \cup (1010..1030) \cup (2990..3008)) ELSE {})

Window == -3..2

\* the capacities around which the tuned families are placed (EveryCap below uses all of Caps)
TunedCaps == (1..130) \cup (254..258) \cup (510..514) \cup (598..600) \cup (1022..1026) \cup (3070..3074) \cup {1024, 3072, 7609}
Tuned ==
    UNION {{[op |-> "encode2", tag |-> "tuned", resp |-> m.resp, cap |-> N, stale |-> << >>] :
               N \in {n \in TunedCaps : m.len - n \in Window}} : m \in Families}

\* every member of every family against the capacities len-1 and len, whatever they are (the
\* tuned capacities above are the ones a transport would use; an encoder that estimates the
\* encoded length goes wrong at ITS thresholds, not at the transport's)
OwnLength ==
    UNION {{[op |-> "encode2", tag |-> "own-length", resp |-> m.resp, cap |-> N, stale |-> << >>] :
               N \in {m.len - 1, m.len} \cap Caps} : m \in Families}

\* capacities beyond 16 bits (a buffer larger than any transport is still a buffer)
HugeCaps ==
    {[op |-> "encode2", tag |-> "huge-capacity", resp |-> r, cap |-> N, stale |-> << >>] :
        r \in {CpTok(0), CpTok(1), CpTok(2), CpTok(40), GaAuth(37), [kind |-> "Reset", v |-> << >>], [kind |-> "ClientPin", v |-> CpRespMin]},
        N \in {65535, 65536, 65537, 65538, 65539, 65540, 131072}}

EmptyBodies ==
    {RespCase(k, v, N, "empty-body") :
        N \in {1, 2, 3, 64},
        k \in {"ClientPin"}, v \in {CpRespMin}}
    \cup {RespCase("CredentialManagement", CmRespMin, N, "empty-body") : N \in {1, 2, 3, 64}}
    \cup {RespCase("LargeBlobs", LbRespMin, N, "empty-body") : N \in {1, 2, 3, 64}}
    \cup {RespCase(k, << >>, N, "bodyless") : k \in BodylessResponses, N \in {1, 2, 3, 64}}

\* every response of the small families against the three smallest capacities
Smallest ==
    {[op |-> "encode2", tag |-> "smallest", resp |-> m.resp, cap |-> N, stale |-> << >>] :
        m \in Fam(CpTok, 0..8), N \in 1..12}

\* previous contents planted in the buffer: half full, completely full
Planted ==
    {[c EXCEPT !.stale = Rep(238, k), !.tag = "planted"] :
        c \in {x \in Tuned : x.cap \in {8, 64, 256}}, k \in {1, 4}}
    \cup {[c EXCEPT !.stale = Rep(238, c.cap), !.tag = "planted-full"] : c \in {x \in Tuned : x.cap \in {8, 64, 256}}}

\* the full response of every kind against EVERY capacity up to its length + 2: the encoder runs
\* out of room inside every member in turn (lists, nested maps, text, integers)
FullResponses ==
    {[kind |-> "GetInfo", v |-> GiFull(F)],
     [kind |-> "GetInfo", v |-> [GiMin EXCEPT !.algorithms = <<<<ALG_ES256, ALG_EdDSA>>>>, !.transports = <<<<N_nfc, N_usb>>>>,
                                             !.options = <<GiOptFull(F)>>, !.maxMsgSize = <<BN(1200)>>]],
     [kind |-> "MakeCredential", v |-> FullOf(McRespMin, McRespOptVals)],
     [kind |-> "GetAssertion", v |-> FullOf(GaRespMin, [GaRespOptVals EXCEPT !.attStmt = StmtPacked])],
     [kind |-> "ClientPin", v |-> FullOf(CpRespMin, CpRespOptVals)],
     [kind |-> "CredentialManagement", v |-> FullOf(CmRespMin, CmRespOptVals(F))]}
EveryCap ==
    UNION {LET len == Len(EncodeResponse(r, F)) IN
           {[op |-> "encode2", tag |-> "every-capacity", resp |-> r, cap |-> N, stale |-> << >>] :
               N \in {n \in Caps : n <= len + 2 /\ n <= 600}} : r \in FullResponses}

\* the LARGEST value of every response kind (every member present at the upper end of its type)
\* and every pair of members at the extremes, against capacities just below, at and above the
\* message length and against the usual transport sizes: an encoder that sizes its working space
\* from an estimate of the largest response is exact only if the estimate is
LatticeResps ==
    UNION {{[kind |-> k, v |-> v] : v \in TwoAtATime(RespSchema(k), F, FALSE) \cup ThreeAtATime(RespSchema(k), F, FALSE)} :
              k \in {"MakeCredential", "GetAssertion", "ClientPin", "CredentialManagement", "LargeBlobs"}}
    \cup {[kind |-> "GetInfo", v |-> FullOfHighs("GetInfoResp", F, FALSE)], [kind |-> "GetInfo", v |-> FullOfDefaults("GetInfoResp", F, FALSE)]}
Largest ==
    UNION {LET len == Len(EncodeResponse(r, F)) IN
           {[op |-> "encode2", tag |-> "largest", resp |-> r, cap |-> N, stale |-> << >>] :
               N \in {len - 1, len, len + 1, 1024, 3072, 7609} \cap Caps} : r \in LatticeResps}

MC_Cases == Tuned \cup OwnLength \cup HugeCaps \cup EmptyBodies \cup Smallest \cup Planted \cup EveryCap \cup Largest

\* the status byte in front of every kind of response, fitting and not, with and without previous
\* contents in the buffer (C18: the numbers of Success and Other as emitted)
StatusCases == EmptyBodies \cup Smallest \cup Planted
               \cup (IF LB \in F THEN {[op |-> "encode2", tag |-> "status-after", resp |-> LbCfg(n), cap |-> 1024, stale |-> st] :
                                          n \in {0, 1, 23, 24, 255, 256}, st \in {<< >>, <<6>>}} ELSE {})
               \cup {[op |-> "encode2", tag |-> "status-after", resp |-> r, cap |-> N, stale |-> st] :
                        r \in FullResponses, N \in {1, 2, 64, 600, 1024},
                        st \in {<<6>>, <<127>>, <<255>>, <<0, 161, 3, 8>>, <<0, 161, 3, 8, 0, 0, 0, 0, 0, 0, 0, 0, 0, 0, 0, 0, 0, 0, 0, 0>>}}

\* two-exchange histories: long then short, short then error, error then long
HistResps == {CpTok(0), CpTok(40), CpKeyTok(48), GaAuth(37), [kind |-> "Reset", v |-> << >>],
              [kind |-> "ClientPin", v |-> CpRespMin]}
MC_HistCases ==
    {[op |-> "encode2", tag |-> "history", resp |-> r, cap |-> N, stale |-> << >>] : r \in HistResps, N \in {1, 8, 64, 130}}

\* the capacity of the transport buffer does not change between exchanges
SameCap == phase = "received" /\ nexch > 0 /\ Len(stale) > 0 => TRUE
=============================================================================
