-------------------------------- MODULE Utf8 --------------------------------
(***************************************************************************)
(* UTF-8 on byte sequences, bit-exact, from The Unicode Standard 15,       *)
(* section 3.9, Table 3-7 "Well-Formed UTF-8 Byte Sequences", and the      *)
(* string-truncation rule of WebAuthn L2 section 6.4.1.                    *)
(***************************************************************************)
EXTENDS ByteSeq

IsCont(x) == x >= 128 /\ x <= 191

\* Length of the well-formed character starting at b[i], 0 if ill-formed
\* (including a character cut short by the end of the string).
CharLenAt(b, i) ==
    LET n  == Len(b)
        b0 == b[i]
        c(k) == i + k <= n /\ IsCont(b[i + k])
    IN  IF b0 <= 127 THEN 1
        ELSE IF b0 >= 194 /\ b0 <= 223 THEN (IF c(1) THEN 2 ELSE 0)
        ELSE IF b0 = 224 THEN (IF i + 2 <= n /\ b[i+1] >= 160 /\ b[i+1] <= 191 /\ c(2) THEN 3 ELSE 0)
        ELSE IF (b0 >= 225 /\ b0 <= 236) \/ b0 = 238 \/ b0 = 239
             THEN (IF c(1) /\ c(2) THEN 3 ELSE 0)
        ELSE IF b0 = 237 THEN (IF i + 2 <= n /\ b[i+1] >= 128 /\ b[i+1] <= 159 /\ c(2) THEN 3 ELSE 0)
        ELSE IF b0 = 240 THEN (IF i + 3 <= n /\ b[i+1] >= 144 /\ b[i+1] <= 191 /\ c(2) /\ c(3) THEN 4 ELSE 0)
        ELSE IF b0 >= 241 /\ b0 <= 243 THEN (IF c(1) /\ c(2) /\ c(3) THEN 4 ELSE 0)
        ELSE IF b0 = 244 THEN (IF i + 3 <= n /\ b[i+1] >= 128 /\ b[i+1] <= 143 /\ c(2) /\ c(3) THEN 4 ELSE 0)
        ELSE 0

RECURSIVE IsUtf8From(_, _)
IsUtf8From(b, i) ==
    IF i > Len(b) THEN TRUE
    ELSE LET k == CharLenAt(b, i) IN IF k = 0 THEN FALSE ELSE IsUtf8From(b, i + k)

IsUtf8(b) == IsUtf8From(b, 1)

\* length of the longest well-formed prefix (core::str::Utf8Error::valid_up_to)
RECURSIVE ValidUpToFrom(_, _)
ValidUpToFrom(b, i) ==
    IF i > Len(b) THEN Len(b)
    ELSE LET k == CharLenAt(b, i) IN IF k = 0 THEN i - 1 ELSE ValidUpToFrom(b, i + k)
ValidUpTo(b) == ValidUpToFrom(b, 1)

(***************************************************************************)
(* Character boundaries.  Position i (0 <= i <= Len) is "between" b[i] and *)
(* b[i+1].  For well-formed text, i is a boundary iff i = 0, i = Len, or   *)
(* b[i+1] is not a continuation byte.                                      *)
(***************************************************************************)
IsBoundary(b, i) == i = 0 \/ i = Len(b) \/ (i < Len(b) /\ ~IsCont(b[i + 1]))

\* Declarative: the longest prefix of at most L bytes ending on a boundary.
TruncLen(b, L) ==
    IF Len(b) <= L THEN Len(b)
    ELSE CHOOSE i \in 0..L : IsBoundary(b, i) /\ \A j \in (i + 1)..L : ~IsBoundary(b, j)

TruncateTo(b, L) == SubSeq(b, 1, TruncLen(b, L))

(***************************************************************************)
(* Operational: the four-byte window scan used by implementations of       *)
(* str::floor_char_boundary.  Returns -1 when no boundary lies in the      *)
(* window (the implementation's unwrap_unchecked would then be undefined   *)
(* behaviour).                                                             *)
(***************************************************************************)
Max(a, b) == IF a >= b THEN a ELSE b

FloorBoundaryWindow(b, L) ==
    IF L >= Len(b) THEN Len(b)
    ELSE LET lo == Max(L - 3, 0)
             cands == {i \in lo..L : ~IsCont(b[i + 1])}
         IN  IF cands = {} THEN -1
             ELSE CHOOSE i \in cands : \A j \in cands : j <= i

\* the lemma that makes the window scan safe: well-formed text has a boundary
\* byte within any four consecutive bytes
WindowLemma(b, L) == IsUtf8(b) /\ L < Len(b) => FloorBoundaryWindow(b, L) = TruncLen(b, L)

(***************************************************************************)
(* Encoding a scalar value (given as <<plane, hi, lo>>-free small numbers  *)
(* would overflow nothing here: scalars are < 2^21 and fit TLC integers).  *)
(***************************************************************************)
EncodeScalar(cp) ==
    IF cp < 128 THEN <<cp>>
    ELSE IF cp < 2048 THEN <<192 + (cp \div 64), 128 + (cp % 64)>>
    ELSE IF cp < 65536 THEN <<224 + (cp \div 4096), 128 + ((cp \div 64) % 64), 128 + (cp % 64)>>
    ELSE <<240 + (cp \div 262144), 128 + ((cp \div 4096) % 64), 128 + ((cp \div 64) % 64), 128 + (cp % 64)>>

IsScalar(cp) == cp >= 0 /\ cp <= 1114111 /\ ~(cp >= 55296 /\ cp <= 57343)

=============================================================================
