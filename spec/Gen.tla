--------------------------------- MODULE Gen ---------------------------------
(***************************************************************************)
(* Representative values and generic generators shared by the scenario     *)
(* modules.  Every member gets a value that differs from every other       *)
(* member's (content and, where the type allows, length), so that a value  *)
(* attributed to the wrong member, shifted or swapped is visible.          *)
(***************************************************************************)
EXTENDS CtapCodec

GNone == << >>

\* all ways of setting a subset of the optional members:
\*   base: record with every optional member absent; vals: member name -> value
SubsetsOf(base, vals) ==
    {[k \in DOMAIN base |-> IF k \in S THEN <<vals[k]>> ELSE base[k]] : S \in SUBSET (DOMAIN vals)}

\* only the empty set, the singletons, the pairs and the full set
SmallSubsetsOf(base, vals) ==
    {[k \in DOMAIN base |-> IF k \in S THEN <<vals[k]>> ELSE base[k]] :
        S \in {T \in SUBSET (DOMAIN vals) : \/ \E a, b \in DOMAIN vals : T = {a, b}
                                             \/ T = {} \/ T = DOMAIN vals}}

(***************************************************************************)
(* Entities and nested maps                                                *)
(***************************************************************************)
RpMin      == [id |-> AsciiPattern(1, 11), name |-> GNone, icon |-> GNone]
RpOptVals  == [name |-> AsciiPattern(2, 9), icon |-> AsciiPattern(3, 21)]
RpFull     == [id |-> AsciiPattern(1, 11), name |-> <<RpOptVals.name>>, icon |-> <<RpOptVals.icon>>]

UserMin     == [id |-> Pattern(5, 16), icon |-> GNone, name |-> GNone, displayName |-> GNone]
UserOptVals == [icon |-> AsciiPattern(6, 30), name |-> AsciiPattern(7, 8), displayName |-> AsciiPattern(8, 12)]
UserFull    == [id |-> Pattern(5, 16), icon |-> <<UserOptVals.icon>>, name |-> <<UserOptVals.name>>,
                displayName |-> <<UserOptVals.displayName>>]

GDesc(i)  == [id |-> Pattern(20 + i, 16 + i), type |-> N_publicKey]
ParamOf(alg) == [alg |-> alg, type |-> N_publicKey]

AuthOptsMin     == [rk |-> GNone, up |-> GNone, uv |-> GNone]
AuthOptsOptVals == [rk |-> TRUE, up |-> FALSE, uv |-> TRUE]
AuthOptsFull    == [rk |-> <<TRUE>>, up |-> <<FALSE>>, uv |-> <<TRUE>>]

McExtMin == [credProtect |-> GNone, hmacSecret |-> GNone, largeBlobKey |-> GNone, thirdPartyPayment |-> GNone]
McExtOptVals(FF) ==
    IF TPP \in FF THEN [credProtect |-> 2, hmacSecret |-> TRUE, largeBlobKey |-> FALSE, thirdPartyPayment |-> TRUE]
    ELSE [credProtect |-> 2, hmacSecret |-> TRUE, largeBlobKey |-> FALSE]
McExtFull(FF) == [k \in DOMAIN McExtMin |-> IF k \in DOMAIN McExtOptVals(FF) THEN <<McExtOptVals(FF)[k]>> ELSE GNone]

EcdhKey(seed) == [kind |-> "ecdh", x |-> Pattern(seed, 32), y |-> Pattern(seed + 1, 32)]

HmacInMin     == [keyAgreement |-> EcdhKey(31), saltEnc |-> Pattern(33, 64), saltAuth |-> Pattern(34, 16),
                  pinUvAuthProtocol |-> GNone]
HmacInFull    == [HmacInMin EXCEPT !.pinUvAuthProtocol = <<BN(2)>>]

GaExtInMin == [hmacSecret |-> GNone, largeBlobKey |-> GNone, thirdPartyPayment |-> GNone]
GaExtInOptVals(FF) ==
    IF TPP \in FF THEN [hmacSecret |-> HmacInFull, largeBlobKey |-> TRUE, thirdPartyPayment |-> FALSE]
    ELSE [hmacSecret |-> HmacInFull, largeBlobKey |-> TRUE]
GaExtInFull(FF) == [k \in DOMAIN GaExtInMin |-> IF k \in DOMAIN GaExtInOptVals(FF) THEN <<GaExtInOptVals(FF)[k]>> ELSE GNone]

(***************************************************************************)
(* Requests: minimal sent value + a value for every optional parameter     *)
(***************************************************************************)
McReqMin == [clientDataHash |-> Pattern(1, 32), rp |-> RpMin, user |-> UserMin,
             pubKeyCredParams |-> <<ParamOf(ALG_ES256)>>,
             excludeList |-> GNone, extensions |-> GNone, options |-> GNone, pinUvAuthParam |-> GNone,
             pinUvAuthProtocol |-> GNone, enterpriseAttestation |-> GNone,
             attestationFormatsPreference |-> GNone]
McReqOptVals(FF) ==
    [excludeList |-> <<GDesc(1), GDesc(2)>>, extensions |-> McExtFull(FF), options |-> AuthOptsFull,
     pinUvAuthParam |-> Pattern(11, 16), pinUvAuthProtocol |-> BN(2), enterpriseAttestation |-> BN(1),
     attestationFormatsPreference |-> <<N_packed, N_tpm>>]

GaReqMin == [rpId |-> AsciiPattern(9, 14), clientDataHash |-> Pattern(2, 32),
             allowList |-> GNone, extensions |-> GNone, options |-> GNone, pinUvAuthParam |-> GNone,
             pinUvAuthProtocol |-> GNone, enterpriseAttestation |-> GNone,
             attestationFormatsPreference |-> GNone]
GaReqOptVals(FF) ==
    [allowList |-> <<GDesc(3)>>, extensions |-> GaExtInFull(FF), options |-> AuthOptsFull,
     pinUvAuthParam |-> Pattern(12, 32), pinUvAuthProtocol |-> BN(1), enterpriseAttestation |-> BN(2),
     attestationFormatsPreference |-> <<N_none>>]

CpReqMin == [pinUvAuthProtocol |-> 1, subCommand |-> 2, keyAgreement |-> GNone, pinUvAuthParam |-> GNone,
             newPinEnc |-> GNone, pinHashEnc |-> GNone, reserved7 |-> GNone, reserved8 |-> GNone,
             permissions |-> GNone, rpId |-> GNone]
CpReqOptVals ==
    [keyAgreement |-> EcdhKey(41), pinUvAuthParam |-> Pattern(13, 16), newPinEnc |-> Pattern(14, 64),
     pinHashEnc |-> Pattern(15, 17), reserved7 |-> << >>, reserved8 |-> << >>, permissions |-> 5,
     rpId |-> AsciiPattern(10, 11)]

CmParamsMin     == [rpIDHash |-> GNone, credentialID |-> GNone, user |-> GNone]
CmParamsOptVals == [rpIDHash |-> Pattern(16, 32), credentialID |-> GDesc(4), user |-> UserFull]
CmParamsFull    == [k \in DOMAIN CmParamsMin |-> <<CmParamsOptVals[k]>>]
CmReqMin     == [subCommand |-> 1, subCommandParams |-> GNone, pinUvAuthProtocol |-> GNone, pinUvAuthParam |-> GNone]
CmReqOptVals == [subCommandParams |-> CmParamsFull, pinUvAuthProtocol |-> 2, pinUvAuthParam |-> Pattern(17, 16)]

LbReqMin     == [get |-> GNone, set |-> GNone, offset |-> BN(3), length |-> GNone, pinUvAuthParam |-> GNone,
                 pinUvAuthProtocol |-> GNone]
LbReqOptVals == [get |-> BN(255), set |-> Pattern(18, 40), length |-> BN(40), pinUvAuthParam |-> Pattern(19, 16),
                 pinUvAuthProtocol |-> BN(2)]

ParamCommands == {1, 2, 6, 10, 12, 65}

ReqMin(c) ==
    CASE c = 1 -> McReqMin [] c = 2 -> GaReqMin [] c = 6 -> CpReqMin
      [] c \in {10, 65} -> CmReqMin [] c = 12 -> LbReqMin
ReqOptVals(c, FF) ==
    CASE c = 1 -> McReqOptVals(FF) [] c = 2 -> GaReqOptVals(FF) [] c = 6 -> CpReqOptVals
      [] c \in {10, 65} -> CmReqOptVals [] c = 12 -> LbReqOptVals
ReqFull(c, FF) == [k \in DOMAIN ReqMin(c) |-> IF k \in DOMAIN ReqOptVals(c, FF) THEN <<ReqOptVals(c, FF)[k]>> ELSE ReqMin(c)[k]]

\* a decode2 case from a sent value
SentCase(c, sv, tag, FF) ==
    [op |-> "decode2", tag |-> tag, c |-> c, sv |-> <<sv>>, wire |-> HostEncode(c, sv, FF)]
\* a decode2 case from raw bytes
RawCase(w, tag) == [op |-> "decode2", tag |-> tag, c |-> 0, sv |-> << >>, wire |-> w]

=============================================================================
