--------------------------------- MODULE Gen ---------------------------------
(***************************************************************************)
(* Representative values and generic generators shared by the scenario     *)
(* modules.  Every member gets a value that differs from every other       *)
(* member's (content and, where the type allows, length), so that a value  *)
(* attributed to the wrong member, shifted or swapped is visible.          *)
(***************************************************************************)
EXTENDS CtapCodec

GNone == << >>

\* all ways of setting a subset of the optional members:
\*   base: record with every optional member absent; vals: member name -> value
SubsetsOf(base, vals) ==
    {[k \in DOMAIN base |-> IF k \in S THEN <<vals[k]>> ELSE base[k]] : S \in SUBSET (DOMAIN vals)}

\* only the empty set, the singletons, the pairs and the full set
SmallSubsetsOf(base, vals) ==
    {[k \in DOMAIN base |-> IF k \in S THEN <<vals[k]>> ELSE base[k]] :
        S \in {{a, b} : a, b \in DOMAIN vals} \cup {{}, DOMAIN vals}}

(***************************************************************************)
(* Entities and nested maps                                                *)
(***************************************************************************)
RpMin      == [id |-> AsciiPattern(1, 11), name |-> GNone, icon |-> GNone]
RpOptVals  == [name |-> AsciiPattern(2, 9), icon |-> AsciiPattern(3, 21)]
RpFull     == [id |-> AsciiPattern(1, 11), name |-> <<RpOptVals.name>>, icon |-> <<RpOptVals.icon>>]

UserMin     == [id |-> Pattern(5, 16), icon |-> GNone, name |-> GNone, displayName |-> GNone]
UserOptVals == [icon |-> AsciiPattern(6, 30), name |-> AsciiPattern(7, 8), displayName |-> AsciiPattern(8, 12)]
UserFull    == [id |-> Pattern(5, 16), icon |-> <<UserOptVals.icon>>, name |-> <<UserOptVals.name>>,
                displayName |-> <<UserOptVals.displayName>>]

GDesc(i)  == [id |-> Pattern(20 + i, 16 + i), type |-> N_publicKey]
ParamOf(alg) == [alg |-> alg, type |-> N_publicKey]

AuthOptsMin     == [rk |-> GNone, up |-> GNone, uv |-> GNone]
AuthOptsOptVals == [rk |-> TRUE, up |-> FALSE, uv |-> TRUE]
AuthOptsFull    == [rk |-> <<TRUE>>, up |-> <<FALSE>>, uv |-> <<TRUE>>]

McExtMin == [credProtect |-> GNone, hmacSecret |-> GNone, largeBlobKey |-> GNone, thirdPartyPayment |-> GNone]
McExtOptVals(FF) ==
    IF TPP \in FF THEN [credProtect |-> 2, hmacSecret |-> TRUE, largeBlobKey |-> FALSE, thirdPartyPayment |-> TRUE]
    ELSE [credProtect |-> 2, hmacSecret |-> TRUE, largeBlobKey |-> FALSE]
McExtFull(FF) == [k \in DOMAIN McExtMin |-> IF k \in DOMAIN McExtOptVals(FF) THEN <<McExtOptVals(FF)[k]>> ELSE GNone]

EcdhKey(seed) == [kind |-> "ecdh", x |-> Pattern(seed, 32), y |-> Pattern(seed + 1, 32)]

HmacInMin     == [keyAgreement |-> EcdhKey(31), saltEnc |-> Pattern(33, 64), saltAuth |-> Pattern(34, 16),
                  pinUvAuthProtocol |-> GNone]
HmacInFull    == [HmacInMin EXCEPT !.pinUvAuthProtocol = <<BN(2)>>]

GaExtInMin == [hmacSecret |-> GNone, largeBlobKey |-> GNone, thirdPartyPayment |-> GNone]
GaExtInOptVals(FF) ==
    IF TPP \in FF THEN [hmacSecret |-> HmacInFull, largeBlobKey |-> TRUE, thirdPartyPayment |-> FALSE]
    ELSE [hmacSecret |-> HmacInFull, largeBlobKey |-> TRUE]
GaExtInFull(FF) == [k \in DOMAIN GaExtInMin |-> IF k \in DOMAIN GaExtInOptVals(FF) THEN <<GaExtInOptVals(FF)[k]>> ELSE GNone]

(***************************************************************************)
(* Requests: minimal sent value + a value for every optional parameter     *)
(***************************************************************************)
McReqMin == [clientDataHash |-> Pattern(1, 32), rp |-> RpMin, user |-> UserMin,
             pubKeyCredParams |-> <<ParamOf(ALG_ES256)>>,
             excludeList |-> GNone, extensions |-> GNone, options |-> GNone, pinUvAuthParam |-> GNone,
             pinUvAuthProtocol |-> GNone, enterpriseAttestation |-> GNone,
             attestationFormatsPreference |-> GNone]
McReqOptVals(FF) ==
    [excludeList |-> <<GDesc(1), GDesc(2)>>, extensions |-> McExtFull(FF), options |-> AuthOptsFull,
     pinUvAuthParam |-> Pattern(11, 16), pinUvAuthProtocol |-> BN(2), enterpriseAttestation |-> BN(1),
     attestationFormatsPreference |-> <<N_packed, N_tpm>>]

GaReqMin == [rpId |-> AsciiPattern(9, 14), clientDataHash |-> Pattern(2, 32),
             allowList |-> GNone, extensions |-> GNone, options |-> GNone, pinUvAuthParam |-> GNone,
             pinUvAuthProtocol |-> GNone, enterpriseAttestation |-> GNone,
             attestationFormatsPreference |-> GNone]
GaReqOptVals(FF) ==
    [allowList |-> <<GDesc(3)>>, extensions |-> GaExtInFull(FF), options |-> AuthOptsFull,
     pinUvAuthParam |-> Pattern(12, 32), pinUvAuthProtocol |-> BN(1), enterpriseAttestation |-> BN(2),
     attestationFormatsPreference |-> <<N_none>>]

CpReqMin == [pinUvAuthProtocol |-> 1, subCommand |-> 2, keyAgreement |-> GNone, pinUvAuthParam |-> GNone,
             newPinEnc |-> GNone, pinHashEnc |-> GNone, reserved7 |-> GNone, reserved8 |-> GNone,
             permissions |-> GNone, rpId |-> GNone]
CpReqOptVals ==
    [keyAgreement |-> EcdhKey(41), pinUvAuthParam |-> Pattern(13, 16), newPinEnc |-> Pattern(14, 64),
     pinHashEnc |-> Pattern(15, 17), reserved7 |-> << >>, reserved8 |-> << >>, permissions |-> 5,
     rpId |-> AsciiPattern(10, 11)]

CmParamsMin     == [rpIDHash |-> GNone, credentialID |-> GNone, user |-> GNone]
CmParamsOptVals == [rpIDHash |-> Pattern(16, 32), credentialID |-> GDesc(4), user |-> UserFull]
CmParamsFull    == [k \in DOMAIN CmParamsMin |-> <<CmParamsOptVals[k]>>]
CmReqMin     == [subCommand |-> 1, subCommandParams |-> GNone, pinUvAuthProtocol |-> GNone, pinUvAuthParam |-> GNone]
CmReqOptVals == [subCommandParams |-> CmParamsFull, pinUvAuthProtocol |-> 2, pinUvAuthParam |-> Pattern(17, 16)]

LbReqMin     == [get |-> GNone, set |-> GNone, offset |-> BN(3), length |-> GNone, pinUvAuthParam |-> GNone,
                 pinUvAuthProtocol |-> GNone]
LbReqOptVals == [get |-> BN(255), set |-> Pattern(18, 40), length |-> BN(40), pinUvAuthParam |-> Pattern(19, 16),
                 pinUvAuthProtocol |-> BN(2)]

ParamCommands == {1, 2, 6, 10, 12, 65}

ReqMin(c) ==
    CASE c = 1 -> McReqMin [] c = 2 -> GaReqMin [] c = 6 -> CpReqMin
      [] c \in {10, 65} -> CmReqMin [] c = 12 -> LbReqMin
ReqOptVals(c, FF) ==
    CASE c = 1 -> McReqOptVals(FF) [] c = 2 -> GaReqOptVals(FF) [] c = 6 -> CpReqOptVals
      [] c \in {10, 65} -> CmReqOptVals [] c = 12 -> LbReqOptVals
ReqFull(c, FF) == [k \in DOMAIN ReqMin(c) |-> IF k \in DOMAIN ReqOptVals(c, FF) THEN <<ReqOptVals(c, FF)[k]>> ELSE ReqMin(c)[k]]

\* the full request with its required entities fully populated as well
ReqRich(c, FF) == IF c = 1 THEN [ReqFull(1, FF) EXCEPT !.rp = RpFull, !.user = UserFull] ELSE ReqFull(c, FF)

\* a decode2 case from a sent value
SentCase(c, sv, tag, FF) ==
    [op |-> "decode2", tag |-> tag, c |-> c, sv |-> <<sv>>, wire |-> HostEncode(c, sv, FF)]
\* a decode2 case from raw bytes
RawCase(w, tag) == [op |-> "decode2", tag |-> tag, c |-> 0, sv |-> << >>, wire |-> w]


(***************************************************************************)
(* Responses: minimal value + a value for every optional member            *)
(***************************************************************************)
FullOf(min, vals) == [k \in DOMAIN min |-> IF k \in DOMAIN vals THEN <<vals[k]>> ELSE min[k]]
\* record restricted / extended: every name of `names` present, absent ones GNone
Blank(names) == [k \in names |-> GNone]

GiOptMin == [k \in AllNames("GetInfoOptions") |-> IF k = "rk" THEN TRUE ELSE IF k = "up" THEN FALSE ELSE GNone]
GiOptOptVals(FF) ==
    LET base == [uv |-> TRUE, plat |-> FALSE, credMgmt |-> TRUE, clientPin |-> FALSE, largeBlobs |-> TRUE,
                 pinUvAuthToken |-> TRUE]
        full == [ep |-> TRUE, uvAcfg |-> FALSE, alwaysUv |-> TRUE, authnrCfg |-> TRUE, bioEnroll |-> FALSE,
                 uvBioEnroll |-> FALSE, setMinPINLength |-> TRUE, makeCredUvNotRqd |-> FALSE,
                 credentialMgmtPreview |-> TRUE, userVerificationMgmtPreview |-> FALSE,
                 noMcGaPermissionsWithClientPin |-> TRUE]
    IN  IF GIF \in FF THEN base @@ full ELSE base
GiOptFull(FF) == FullOf(GiOptMin, GiOptOptVals(FF))

CertMin     == Blank(AllNames("Certifications"))
CertOptVals == [FIDO |-> 1, CC_EAL |-> 2, FIPS_CMVP_2 |-> 3, FIPS_CMVP_3 |-> 4, FIPS_CMVP_2_PHY |-> 5, FIPS_CMVP_3_PHY |-> 6]
CertFull    == FullOf(CertMin, CertOptVals)

GiMin == [k \in AllNames("GetInfoResp") |->
            IF k = "versions" THEN <<N_FIDO_2_0, N_U2F_V2>> ELSE IF k = "aaguid" THEN Pattern(50, 16) ELSE GNone]
GiOptionalVals(FF) ==
    LET base == [extensions |-> <<N_hmacSecret, N_credProtect>>, options |-> GiOptFull(FF),
                 maxMsgSize |-> BN(1200), pinUvAuthProtocols |-> <<2, 1>>, maxCredentialCountInList |-> BN(10),
                 maxCredentialIdLength |-> BN(255), transports |-> <<N_nfc, N_usb>>,
                 algorithms |-> <<ALG_ES256, ALG_EdDSA>>, maxSerializedLargeBlobArray |-> BN(1024)]
        full == [forcePINChange |-> FALSE, minPINLength |-> BN(4), firmwareVersion |-> BN(66051),
                 maxCredBlobLength |-> BN(32), maxRPIDsForSetMinPINLength |-> BN(1),
                 preferredPlatformUvAttempts |-> BN(3), uvModality |-> BN(2), certifications |-> CertFull,
                 remainingDiscoverableCredentials |-> BN(24), vendorPrototypeConfigCommands |-> BN(0),
                 attestationFormats |-> <<N_packed, N_none>>, uvCountSinceLastPinEntry |-> BN(300),
                 longTouchForReset |-> TRUE]
    IN  IF GIF \in FF THEN base @@ full ELSE base
GiFull(FF) == FullOf(GiMin, GiOptionalVals(FF))

StmtNone   == [packed |-> FALSE, alg |-> 0, sig |-> << >>, x5c |-> GNone]
StmtPacked == [packed |-> TRUE, alg |-> ALG_ES256, sig |-> Pattern(60, 70), x5c |-> GNone]
StmtX5c    == [StmtPacked EXCEPT !.x5c = << <<Pattern(61, 300)>> >>]

McRespMin == [fmt |-> N_packed, authData |-> Pattern(51, 37), attStmt |-> GNone, epAtt |-> GNone,
              largeBlobKey |-> GNone, unsignedExtensionOutputs |-> GNone]
McRespOptVals == [attStmt |-> StmtPacked, epAtt |-> TRUE, largeBlobKey |-> Pattern(52, 32),
                  unsignedExtensionOutputs |-> << >>]

DescOwned(i) == [id |-> Pattern(70 + i, 20 + i), type |-> N_publicKey]
GaRespMin == [credential |-> DescOwned(1), authData |-> Pattern(53, 37), signature |-> Pattern(54, 71),
              user |-> GNone, numberOfCredentials |-> GNone, userSelected |-> GNone, largeBlobKey |-> GNone,
              unsignedExtensionOutputs |-> GNone, epAtt |-> GNone, attStmt |-> GNone]
GaRespOptVals == [user |-> UserFull, numberOfCredentials |-> BN(3), userSelected |-> TRUE,
                  largeBlobKey |-> Pattern(55, 32), unsignedExtensionOutputs |-> << >>, epAtt |-> FALSE,
                  attStmt |-> StmtX5c]

CpRespMin == Blank(AllNames("CpResp"))
CpRespOptVals == [keyAgreement |-> EcdhKey(56), pinUvAuthToken |-> Pattern(57, 32), pinRetries |-> 8,
                  powerCycleState |-> FALSE, uvRetries |-> 3]

CoseOfKind(k) ==
    [kind |-> k, x |-> (IF CoseConst(k).hasX THEN Pattern(58, 32) ELSE << >>),
     y |-> (IF CoseConst(k).hasY THEN Pattern(59, 32) ELSE << >>)]

\* what a response carries of an rp: no icon (never re-emitted)
RpOut == [id |-> AsciiPattern(1, 11), name |-> <<AsciiPattern(2, 9)>>, icon |-> GNone]
CmRespMin == Blank(AllNames("CmResp"))
CmRespOptVals(FF) ==
    LET base == [existingResidentCredentialsCount |-> BN(5), maxPossibleRemainingResidentCredentialsCount |-> BN(20),
                 rp |-> RpOut, rpIDHash |-> Pattern(62, 32), totalRPs |-> BN(2), user |-> UserFull,
                 credentialID |-> DescOwned(2), publicKey |-> CoseOfKind("p256"), totalCredentials |-> BN(300),
                 credProtect |-> 3, largeBlobKey |-> Pattern(63, 32)]
    IN  IF TPP \in FF THEN base @@ [thirdPartyPayment |-> TRUE] ELSE base

LbRespMin == [config |-> GNone]

RespCase(kind, v, cap, tag) ==
    [op |-> "encode2", tag |-> tag, resp |-> [kind |-> kind, v |-> v], cap |-> cap, stale |-> << >>]
TypeEncCase(tn, v, tag) == [op |-> "encode_type", tag |-> tag, type |-> tn, v |-> v]
TypeDecCase(tn, b, tag) == [op |-> "decode_type", tag |-> tag, type |-> tn, bytes |-> b]

=============================================================================
