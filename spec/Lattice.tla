------------------------------- MODULE Lattice -------------------------------
(***************************************************************************)
(* Systematic value lattices, derived from the TYPE of every member:       *)
(*   Alts(ty, F, host)  a set of alternative values of a type -- integers  *)
(*       across every head-width threshold, booleans both ways, byte and   *)
(*       text strings at lengths 0, 1, 23, 24, 255, 256 and the capacity,  *)
(*       with plain and adversarial contents (DER- and CBOR-looking heads, *)
(*       0x00 / 0xFF runs, multi-byte characters), lists empty / single /  *)
(*       full / with repeated and reordered entries, every enumerator;     *)
(*   MinOf(s, F)        the minimal value of a schema (required members    *)
(*       only);                                                            *)
(*   OneAtATime(s, F, host)   the minimal value with ONE member replaced   *)
(*       by each of its alternatives, recursively through nested maps.     *)
(* host = TRUE yields the SENT form of the lossy request members.          *)
(***************************************************************************)
EXTENDS CtapCodec, FiniteSets, Dict

LNone == << >>

\* a member with the type it has IN CONFIGURATION F (capacities may depend on the features)
MemberF(s, F, nm) == LET ms == Schema(s, F) IN ms[CHOOSE i \in 1..Len(ms) : ms[i].name = nm]

Min2(a, b) == IF a <= b THEN a ELSE b

\* opaque bytes that LOOK like something: a DER SEQUENCE header announcing fewer bytes than
\* follow, a CBOR map head, a run of 0xFF, a run of zeros
DerLike(n)  == IF n >= 4 THEN <<48, 130, 0, 2>> \o Rep(170, n - 4) ELSE Rep(48, n)
DerShort(n) == IF n >= 3 THEN <<48, 129, 1>> \o Rep(187, n - 3) ELSE Rep(48, n)
CborLike(n) == IF n >= 2 THEN <<162, 1>> \o Rep(246, n - 2) ELSE Rep(160, n)
\* a complete short-form DER SEQUENCE of two INTEGERs (an ECDSA signature) followed by padding, and
\* a chain: two complete long-form SEQUENCEs followed by one that is cut off
DerSeqInt(n) == IF n >= 10 THEN <<48, 6, 2, 1, 5, 2, 1, 7>> \o Rep(0, n - 8) ELSE Rep(48, n)
DerChain(n)  == IF n >= 30 THEN <<48, 130, 0, 4, 1, 2, 3, 4, 48, 130, 0, 3, 5, 6, 7, 48, 130, 1, 0>> \o Rep(9, n - 19) ELSE Rep(48, n)
\* ... the third announces 1000 bytes and is cut off after n - 19
DerChainCut(n) == IF n >= 30 THEN <<48, 130, 0, 4, 1, 2, 3, 4, 48, 130, 0, 3, 5, 6, 7, 48, 130, 3, 232>> \o Rep(9, n - 19) ELSE Rep(48, n)
\* contents whose LAST bytes look like an encoding of their own: an empty map after a zero, a
\* break, a null (code that recognises a situation by looking at the tail of the output)
TailLike(n, tail) == IF n >= Len(tail) THEN Rep(1, n - Len(tail)) \o tail ELSE Rep(160, n)
Tails == {<<0, 160>>, <<160>>, <<255>>, <<246>>, <<0>>}

\* the head-width thresholds, the capacity, and the powers of two with their neighbours (block sizes)
Pow2ish == {15, 16, 17, 31, 32, 33, 63, 64, 65, 127, 128, 129}
ByteLens(max) == IF max < 0 THEN {0, 1, 23, 24, 255, 256, 300} \cup Pow2ish
                 ELSE {n \in {0, 1, 23, 24, 255, 256} \cup Pow2ish : n <= max} \cup {max}
BytesAlts(max) ==
    {Pattern(40, n) : n \in ByteLens(max)}
    \cup (LET m == IF max < 0 THEN 40 ELSE Min2(max, 40) IN
          {DerLike(m), DerShort(m), DerSeqInt(m), DerChain(m), DerChainCut(m), CborLike(m), Rep(255, m), Rep(0, m)} \cup {TailLike(m, t) : t \in Tails})
    \cup (IF max < 0 \/ max >= 300 THEN {DerChain(300), DerChainCut(300), DerSeqInt(300)} ELSE {})

Euro == <<226, 130, 172>>
TextLens(max) == IF max < 0 THEN {0, 1, 23, 24, 255, 256, 300} \cup Pow2ish
                 ELSE {n \in {0, 1, 23, 24, 255, 256} \cup Pow2ish : n <= max} \cup {max}
\* contents, not only sizes: white space at either end (code that trims), the words of the
\* source's own dictionary alone and as a prefix of a longer text (code that recognises a scheme, a
\* magic identifier, a second spelling)
Spaced(n) == IF n >= 2 THEN {AsciiPattern(41, n - 1) \o <<32>>, <<32>> \o AsciiPattern(41, n - 1), AsciiPattern(41, n - 1) \o <<9>>} ELSE {}
UpperB(ch) == IF ch >= 97 /\ ch <= 122 THEN ch - 32 ELSE ch
LowerB(ch) == IF ch >= 65 /\ ch <= 90 THEN ch + 32 ELSE ch
CaseVariants(w) == {[i \in 1..Len(w) |-> UpperB(w[i])], [i \in 1..Len(w) |-> LowerB(w[i])],
                    [i \in 1..Len(w) |-> IF i = 1 THEN UpperB(w[i]) ELSE w[i]], [i \in 1..Len(w) |-> IF i = Len(w) THEN UpperB(w[i]) ELSE w[i]]} \ {w}
\* texts that some standard parser, classifier or normaliser treats specially (a special case that
\* is COMPUTED -- parse::<IpAddr>(), trim(), to_lowercase(), is_numeric() -- has no literal to harvest)
Asc(str) == str      \* (byte tuples are written out below)
NaughtyTexts == {
    <<49, 57, 50, 46, 49, 54, 56, 46, 49, 46, 49, 48>>,                 \* 192.168.1.10
    <<49, 50, 55, 46, 48, 46, 48, 46, 49>>,                             \* 127.0.0.1
    <<58, 58, 49>>, <<102, 101, 56, 48, 58, 58, 49>>,                   \* ::1  fe80::1
    <<91, 58, 58, 49, 93>>,                                             \* [::1]
    <<108, 111, 99, 97, 108, 104, 111, 115, 116>>,                      \* localhost
    <<101, 120, 97, 109, 112, 108, 101, 46, 99, 111, 109, 46>>,         \* example.com.
    <<69, 88, 65, 77, 80, 76, 69, 46, 67, 79, 77>>,                     \* EXAMPLE.COM
    <<120, 110, 45, 45, 109, 110, 99, 104, 101, 110, 45, 51, 121, 97, 46, 100, 101>>,   \* xn--mnchen-3ya.de
    <<104, 116, 116, 112, 115, 58, 47, 47, 97, 46, 98, 47, 99, 63, 100, 61, 49, 35, 101>>,   \* https://a.b/c?d=1#e
    <<97, 64, 98, 46, 99>>,                                             \* a@b.c
    <<97, 46, 98, 58, 56, 48, 56, 48>>,                                 \* a.b:8080
    <<46>>, <<46, 46, 47, 46, 46, 47>>, <<47>>, <<37, 48, 48>>, <<37, 50, 48>>,   \* .  ../../  /  %00  %20
    <<48>>, <<45, 49>>, <<49, 101, 53>>, <<48, 120, 49, 48>>, <<78, 97, 78>>, <<49, 46, 53>>,   \* 0 -1 1e5 0x10 NaN 1.5
    <<116, 114, 117, 101>>, <<110, 117, 108, 108>>, <<123, 125>>, <<91, 93>>, <<34, 34>>,      \* true null {} [] ""
    <<50, 48, 50, 54, 45, 48, 57, 45, 50, 56, 84, 48, 48, 58, 48, 48, 58, 48, 48, 90>>,          \* 2026-09-28T00:00:00Z
    <<32, 32, 32>>, <<9>>, <<13, 10>>, <<97, 0, 98>>,                   \* blanks, CRLF, embedded NUL
    <<196, 176>>, <<200, 186>>, <<195, 159>>, <<239, 172, 129>>, <<226, 132, 170>>, <<225, 186, 158>>,   \* U+0130 U+023A sharp-s fi-ligature Kelvin capital-sharp-s (case mappings that change length)
    <<217, 161, 217, 162>>, <<239, 188, 145>>,                          \* Arabic-Indic digits, full-width 1
    <<101, 204, 129>>, <<195, 169>>,                                    \* e + combining acute, precomposed e-acute
    <<226, 128, 174, 97, 98>>, <<239, 187, 191, 97>> }                  \* right-to-left override, byte-order mark
DictCased == DictAscii \cup UNION {CaseVariants(w) : w \in {x \in DictAscii : Len(x) <= 20}}
DictWords(max) == {w \in DictAscii \cup NaughtyTexts : max < 0 \/ Len(w) <= max}
                  \cup {w \o AsciiPattern(41, 12) : w \in {x \in DictAscii : Len(x) <= 8 /\ (max < 0 \/ Len(x) + 12 <= max)}}
TextAlts(max) ==
    {AsciiPattern(41, n) : n \in TextLens(max)}
    \cup (IF max < 0 \/ max >= 6 THEN {Euro \o Euro, <<0>>, <<127>> \o EncodeScalar(128512)} ELSE {})
    \cup Spaced(IF max < 0 THEN 20 ELSE max) \cup Spaced(5)

UIntAlts32 == {BN(0), BN(1), BN(2), BN(3), BN(23), BN(24), BN(255), BN(256), BN(65535), BN(65536), BN(65696), BNMaxU32}     \* 65696 = 0x0100A0
UIntAlts64 == UIntAlts32 \cup {BNSucc(BNMaxU32), BNMaxU64}
\* algorithm identifiers: the thresholds, the numbers congruent to the two known identifiers modulo
\* 2^8 and 2^16 (a comparison through a narrower type), the IANA COSE registry's other signature
\* algorithms, and every integer literal of the source
I32Alts == {-2147483647 - 1, -65537, -257, -25, -24, -8, -7, -1, 0, 23, 24, 255, 65536, 2147483647}
           \cup {249, 248, -263, -264, 505, 65529, 65528, -65543, -65544}
           \cup {-9, -19, -35, -36, -37, -38, -39, -47, -48, -49, -50, -51, -52, -53, -258, -259, -65535}
           \cup DictInts

\* the first k elements of a set, in some fixed order
RECURSIVE SetToSeqL(_)
SetToSeqL(S) == IF S = {} THEN << >> ELSE LET x == CHOOSE x \in S : TRUE IN <<x>> \o SetToSeqL(S \ {x})

RECURSIVE DefaultOf(_, _, _), MinOf(_, _, _), Alts(_, _, _), OneAtATime(_, _, _)

DefaultOf(ty, F, host) ==
    CASE ty.t = "u8" -> 1
      [] ty.t \in {"u32", "u64"} -> BN(2)
      [] ty.t = "i32" -> ALG_ES256
      [] ty.t = "bool" -> TRUE
      [] ty.t = "unit" -> << >>
      [] ty.t = "bytes" -> Pattern(42, IF ty.max < 0 THEN 16 ELSE Min2(ty.max, 16))
      [] ty.t = "bytesExact" -> Pattern(43, ty.n)
      [] ty.t = "str" -> AsciiPattern(44, IF ty.max < 0 THEN 10 ELSE Min2(ty.max, 10))
      [] ty.t \in {"strTrunc", "strSkip", "iconInner"} -> AsciiPattern(45, 7)
      [] ty.t = "enumU8" -> CHOOSE x \in ty.set : \A y \in ty.set : x <= y
      [] ty.t = "enumStr" -> CHOOSE x \in ty.tab : TRUE
      [] ty.t = "seq" -> << >>
      [] ty.t = "params" -> IF host THEN <<[alg |-> ALG_ES256, type |-> N_publicKey]>> ELSE <<ALG_ES256>>
      [] ty.t = "formats" -> <<N_packed>>
      [] ty.t \in {"struct", "indexed"} -> MinOf(ty.s, F, host)
      [] ty.t = "cose" -> [kind |-> (IF ty.kind = "any" THEN "p256" ELSE ty.kind), x |-> Pattern(46, 32), y |-> Pattern(47, 32)]
      [] ty.t = "attStmt" -> [packed |-> FALSE, alg |-> 0, sig |-> << >>, x5c |-> << >>]
      [] ty.t = "empty" -> << >>
      [] ty.t \in {"opt", "some"} -> DefaultOf(ty.i, F, host)

MinOf(s, F, host) ==
    [nm \in AllNames(s) |->
        LET m == MemberF(s, F, nm) IN
        IF m.req /\ (m.feat = "" \/ m.feat \in F) THEN DefaultOf(m.ty, F, host) ELSE LNone]

\* how a value of a member is stored in its parent
WrapFor(m, a) == IF m.req THEN a ELSE <<a>>

PK(a) == [alg |-> a, type |-> N_publicKey]
ParamsAltsHost ==
    {<< >>, <<[alg |-> ALG_ES256, type |-> N_publicKey]>>,
     <<[alg |-> ALG_EdDSA, type |-> N_publicKey], [alg |-> ALG_ES256, type |-> N_publicKey]>>,
     <<[alg |-> ALG_ES256, type |-> N_publicKey], [alg |-> ALG_ES256, type |-> N_publicKey], [alg |-> ALG_EdDSA, type |-> N_publicKey]>>,
     <<[alg |-> -257, type |-> N_publicKey], [alg |-> ALG_ES256, type |-> N_tpm], [alg |-> ALG_EdDSA, type |-> N_publicKey]>>}
    \* every candidate identifier alone, in front of and between the two known ones (an identifier
    \* wrongly taken for a known one shows up as itself, or crowds a known one out of the two slots)
    \cup {<<PK(a)>> : a \in I32Alts}
    \cup {<<PK(a), PK(ALG_ES256), PK(ALG_EdDSA)>> : a \in I32Alts}
    \cup {<<PK(ALG_EdDSA), PK(a), PK(ALG_ES256)>> : a \in I32Alts}
    \cup {<<[alg |-> ALG_ES256, type |-> w], PK(ALG_EdDSA)>> : w \in {x \in DictAscii : Len(x) <= 32}}
ParamsAlts ==
    {<< >>, <<ALG_ES256>>, <<ALG_EdDSA>>, <<ALG_ES256, ALG_EdDSA>>, <<ALG_EdDSA, ALG_ES256>>,
     <<ALG_ES256, ALG_ES256>>, <<ALG_EdDSA, ALG_EdDSA>>, <<-257>>, <<-257, ALG_ES256>>, <<-65537, 24>>, <<0, -1>>}

Alts(ty, F, host) ==
    \* small numbers, the head-width threshold, every single bit and a few unions of bits (flag sets)
    CASE ty.t = "u8" -> {0, 1, 2, 3, 4, 8, 16, 32, 64, 128, 23, 24, 40, 127, 254, 255}
      [] ty.t = "u32" -> UIntAlts32
      [] ty.t = "u64" -> UIntAlts64
      [] ty.t = "i32" -> I32Alts
      [] ty.t = "bool" -> BOOLEAN
      [] ty.t = "unit" -> {<< >>}
      [] ty.t = "bytes" -> BytesAlts(ty.max)
      [] ty.t = "bytesExact" -> {Pattern(43, ty.n), Rep(0, ty.n), Rep(255, ty.n), DerLike(ty.n), CborLike(ty.n), TailLike(ty.n, <<0, 160>>)}
      [] ty.t = "str" -> TextAlts(ty.max)
      [] ty.t = "strTrunc" -> IF host THEN TextAlts(-1) \cup {AsciiPattern(41, n) : n \in {63, 64, 65}} \cup Spaced(63) \cup Spaced(64) \cup Spaced(65) \cup Spaced(66)
                                      ELSE TextAlts(ty.L)
      [] ty.t = "strSkip" -> IF host THEN TextAlts(-1) \cup {AsciiPattern(41, n) : n \in {127, 128, 129}} \cup Spaced(128) \cup Spaced(129)
                                     ELSE TextAlts(ty.L)
      [] ty.t = "iconInner" -> TextAlts(-1)
      [] ty.t = "enumU8" -> ty.set
      [] ty.t = "enumStr" -> ty.tab
      [] ty.t = "seq" ->
            LET es  == Alts(ty.e, F, host)
                all == SetToSeqL(es)
                few == SubSeq(all, 1, Min2(4, Len(all)))
                cap == IF ty.max < 0 THEN 3 ELSE ty.max
            IN  {<< >>} \cup {<<e>> : e \in es}
                \cup (IF cap >= 2 /\ Len(few) >= 1 THEN {<<few[1], few[1]>>} ELSE {})                  \* a repeated entry
                \cup (IF cap >= 2 /\ Len(few) >= 2 THEN {<<few[1], few[2]>>, <<few[2], few[1]>>} ELSE {})   \* both orders
                \cup (IF cap >= 3 /\ Len(few) >= 2 THEN {<<few[1], few[2], few[1]>>} ELSE {})              \* equal to an earlier, not adjacent
                \cup (IF Len(few) >= 1 THEN {[i \in 1..cap |-> few[((i - 1) % Len(few)) + 1]]} ELSE {})    \* full
      [] ty.t = "params" -> IF host THEN ParamsAltsHost ELSE ParamsAlts
      [] ty.t = "formats" -> {<< >>, <<N_packed>>, <<N_none, N_packed>>, <<N_tpm, N_none, N_tpm, N_packed>>, <<N_packed, N_packed, N_none>>,
                              <<N_packed, N_none, N_fidoU2f>>, <<N_fidoU2f, N_androidKey, N_apple, N_none, N_packed, N_none>>}
      [] ty.t \in {"struct", "indexed"} -> OneAtATime(ty.s, F, host)
      [] ty.t = "cose" ->
            LET kinds == IF ty.kind = "any" THEN CoseKinds ELSE {ty.kind} IN
            UNION {{[kind |-> k, x |-> (IF CoseConst(k).hasX THEN Pattern(46, n) ELSE << >>),
                     y |-> (IF CoseConst(k).hasY THEN Pattern(47, n) ELSE << >>)] : n \in {0, 1, 31, 32}} : k \in kinds}
      [] ty.t = "attStmt" ->
            {[packed |-> FALSE, alg |-> 0, sig |-> << >>, x5c |-> << >>]}
            \cup {[packed |-> TRUE, alg |-> a, sig |-> Pattern(48, n), x5c |-> << >>] : a \in {ALG_ES256, ALG_EdDSA, -257, 0}, n \in {0, 63, 64, 65, 70, 71, 72, 77}}
            \cup {[packed |-> TRUE, alg |-> ALG_ES256, sig |-> Pattern(48, 70), x5c |-> <<c>>] :
                     c \in {<< >>, <<Pattern(49, 0)>>, <<DerLike(300)>>, <<Pattern(49, 1024)>>, <<DerChain(600)>>, <<DerChain(1024)>>, <<DerChainCut(40)>>, <<DerChainCut(600)>>, <<DerSeqInt(100)>>}}
            \cup {[packed |-> TRUE, alg |-> ALG_ES256, sig |-> sg, x5c |-> << >>] :
                     sg \in {DerSeqInt(64), DerSeqInt(72), DerSeqInt(77), DerLike(70), <<48, 68, 2, 32>> \o Rep(1, 32) \o <<2, 32>> \o Rep(2, 32), <<48, 68, 2, 32>> \o Rep(1, 32) \o <<2, 32>> \o Rep(2, 32) \o Rep(0, 7)}}
      [] ty.t = "empty" -> {<< >>}
      [] ty.t \in {"opt", "some"} -> Alts(ty.i, F, host)

\* every member present with its default value
FullOfDefaults(s, F, host) ==
    [nm \in AllNames(s) |->
        LET m == MemberF(s, F, nm) IN
        IF m.feat # "" /\ m.feat \notin F THEN LNone
        ELSE WrapFor(m, DefaultOf(InnerTy(m.ty), F, host))]

\* the two ends of a type's range (used for PAIRS of members)
RECURSIVE Extremes(_, _, _)
Extremes(ty, F, host) ==
    CASE ty.t = "u8" -> {0, 255}
      [] ty.t = "u32" -> {BN(0), BNMaxU32}
      [] ty.t = "u64" -> {BN(0), BNMaxU64}
      [] ty.t = "i32" -> {-2147483647 - 1, 2147483647}
      [] ty.t = "bool" -> BOOLEAN
      [] ty.t = "unit" -> {<< >>}
      [] ty.t = "bytes" -> {<< >>, Pattern(50, IF ty.max < 0 THEN 300 ELSE ty.max)}
      [] ty.t = "bytesExact" -> {Rep(0, ty.n), Rep(255, ty.n)}
      [] ty.t = "str" -> {<< >>, AsciiPattern(51, IF ty.max < 0 THEN 300 ELSE ty.max)}
      [] ty.t = "strTrunc" -> {<< >>, AsciiPattern(51, IF host THEN 65 ELSE ty.L)}
      [] ty.t = "strSkip" -> {AsciiPattern(51, ty.L), AsciiPattern(51, IF host THEN ty.L + 1 ELSE 0)}
      [] ty.t = "iconInner" -> {<< >>, AsciiPattern(51, 300)}
      [] ty.t = "enumU8" -> {CHOOSE x \in ty.set : \A y \in ty.set : x <= y, CHOOSE x \in ty.set : \A y \in ty.set : x >= y}
      [] ty.t = "enumStr" -> {CHOOSE x \in ty.tab : TRUE}
      [] ty.t = "seq" -> {<< >>, [i \in 1..(IF ty.max < 0 THEN 3 ELSE ty.max) |-> DefaultOf(ty.e, F, host)]}
      [] ty.t = "params" -> IF host THEN {<< >>, <<[alg |-> -257, type |-> N_publicKey], [alg |-> ALG_EdDSA, type |-> N_publicKey], [alg |-> ALG_ES256, type |-> N_publicKey]>>}
                            ELSE {<< >>, <<ALG_EdDSA, ALG_ES256>>}
      [] ty.t = "formats" -> {<< >>, <<N_tpm, N_none, N_packed>>}
      [] ty.t \in {"struct", "indexed"} -> {MinOf(ty.s, F, host), FullOfDefaults(ty.s, F, host)}
      [] ty.t = "cose" -> {DefaultOf(ty, F, host)}
      [] ty.t = "attStmt" -> {[packed |-> FALSE, alg |-> 0, sig |-> << >>, x5c |-> << >>],
                              [packed |-> TRUE, alg |-> ALG_ES256, sig |-> Pattern(48, 77), x5c |-> << <<Pattern(49, 1024)>> >>]}
      [] ty.t = "empty" -> {<< >>}
      [] ty.t \in {"opt", "some"} -> Extremes(ty.i, F, host)

\* the lower end of a type's range
RECURSIVE DefaultLow(_, _, _)
DefaultLow(ty, F, host) ==
    CASE ty.t = "u8" -> 0
      [] ty.t \in {"u32", "u64"} -> BN(0)
      [] ty.t = "i32" -> -2147483647 - 1
      [] ty.t = "bool" -> FALSE
      [] ty.t = "bytesExact" -> Rep(0, ty.n)
      [] ty.t = "strSkip" -> AsciiPattern(51, IF host THEN ty.L + 1 ELSE 0)
      [] ty.t = "enumU8" -> CHOOSE x \in ty.set : \A y \in ty.set : x <= y
      [] ty.t \in {"struct", "indexed"} -> MinOf(ty.s, F, host)
      [] ty.t = "attStmt" -> [packed |-> FALSE, alg |-> 0, sig |-> << >>, x5c |-> << >>]
      [] ty.t = "enumStr" -> CHOOSE x \in ty.tab : TRUE
      [] ty.t = "cose" -> DefaultOf(ty, F, host)
      [] ty.t \in {"opt", "some"} -> DefaultLow(ty.i, F, host)
      [] OTHER -> << >>

\* the upper end alone
ExtHigh(ty, F, host) ==
    LET e == Extremes(ty, F, host) IN
    IF Cardinality(e) = 1 THEN CHOOSE x \in e : TRUE
    ELSE CHOOSE x \in e : x # DefaultLow(ty, F, host)

\* every member present at the upper end of its type: the LARGEST value of the schema
FullOfHighs(s, F, host) ==
    [nm \in AllNames(s) |->
        LET m == MemberF(s, F, nm) IN
        IF m.feat # "" /\ m.feat \notin F THEN LNone
        ELSE WrapFor(m, ExtHigh(InnerTy(m.ty), F, host))]

\* every optional member present with the LOWEST value of its type (empty strings, empty lists,
\* zero), required members at their defaults
FullOfLows(s, F, host) ==
    [nm \in AllNames(s) |->
        LET m == MemberF(s, F, nm) IN
        IF m.feat # "" /\ m.feat \notin F THEN LNone
        ELSE IF m.req THEN DefaultOf(m.ty, F, host)
        ELSE <<DefaultLow(InnerTy(m.ty), F, host)>>]

\* the words of the dictionary in every text member of a given base value, one at a time, also one
\* level down (rp.id, user.name, ...): a magic identifier usually needs company (an empty
\* pinUvAuthParam, a particular option) -- the bases "everything present, lowest" and "everything
\* present, default" provide it
IsTextTy(ty) == ty.t \in {"str", "strTrunc", "strSkip"}
WordsFor(ty, host) == DictWords(IF ty.t = "str" THEN ty.max ELSE IF host THEN -1 ELSE ty.L)
DictOver(s, F, host, base) ==
    LET ms == Members(s, F) IN
    UNION {LET m   == ms[i]
               ity == InnerTy(m.ty)
           IN  IF IsTextTy(ity) THEN {[base EXCEPT ![m.name] = WrapFor(m, w)] : w \in WordsFor(ity, host)}
               ELSE IF ity.t \in {"struct", "indexed"} /\ (m.req \/ base[m.name] # << >>) THEN
                    LET sub == IF m.req THEN base[m.name] ELSE base[m.name][1]
                        sms == SelectSeq(Members(ity.s, F), LAMBDA mm : IsTextTy(InnerTy(mm.ty)))
                    IN  UNION {{[base EXCEPT ![m.name] = WrapFor(m, [sub EXCEPT ![sms[j].name] = WrapFor(sms[j], w)])]
                                   : w \in WordsFor(InnerTy(sms[j].ty), host)} : j \in 1..Len(sms)}
               ELSE {}
           : i \in 1..Len(ms)}
DictLattice(s, F, host) == DictOver(s, F, host, FullOfLows(s, F, host))
DictLatticeDeep(s, F, host) == DictLattice(s, F, host) \cup DictOver(s, F, host, MinOf(s, F, host)) \cup DictOver(s, F, host, FullOfDefaults(s, F, host))

\* the minimal value with every PAIR of members set to every combination of their extremes
TwoAtATime(s, F, host) ==
    LET min == MinOf(s, F, host)
        ms  == Members(s, F)        \* a member that is never serialised can still be SET: the encoder must ignore it
    IN  UNION {UNION {{[min EXCEPT ![ms[i].name] = WrapFor(ms[i], a), ![ms[j].name] = WrapFor(ms[j], b)] :
                          a \in Extremes(InnerTy(ms[i].ty), F, host), b \in Extremes(InnerTy(ms[j].ty), F, host)}
                      : j \in (i + 1)..Len(ms)} : i \in 1..Len(ms)}
       \cup {FullOfDefaults(s, F, host), FullOfHighs(s, F, host)}

\* one member at a time over its alternatives ON A GIVEN BASE
OneAtATimeOn(s, F, host, base) ==
    LET ms == Members(s, F) IN
    {base} \cup UNION {{[base EXCEPT ![ms[i].name] = WrapFor(ms[i], a)] : a \in Alts(InnerTy(ms[i].ty), F, host)} : i \in 1..Len(ms)}
\* a member of an enumerated type (a sub-command) is a MODE switch: everything else is explored
\* once per mode, on the minimal base and on the base with every optional member present
\* (the PIN/UV protocol number is a mode switch as well: two protocols, two sets of rules)
IsProtocol(m) == m.name \in {"pinUvAuthProtocol", "pinProtocol"}
ModeValues(m) == IF InnerTy(m.ty).t = "enumU8" THEN InnerTy(m.ty).set
                 ELSE IF InnerTy(m.ty).t = "u8" THEN {1, 2} ELSE {BN(1), BN(2)}
PerModeOn(s, F, host, base) ==
    LET ms    == Members(s, F)
        modes == {i \in 1..Len(ms) : InnerTy(ms[i].ty).t = "enumU8" \/ (IsProtocol(ms[i]) /\ InnerTy(ms[i].ty).t \in {"u8", "u32", "u64"})}
    IN  UNION {UNION {OneAtATimeOn(s, F, host, [base EXCEPT ![ms[i].name] = WrapFor(ms[i], e)]) : e \in ModeValues(ms[i])} : i \in modes}
PerMode(s, F, host) == PerModeOn(s, F, host, MinOf(s, F, host))
PerModeDeep(s, F, host) == PerMode(s, F, host) \cup PerModeOn(s, F, host, FullOfLows(s, F, host))

\* RELATIONS between two members of the same kind: equal contents, one a prefix of the other, equal
\* lengths with different contents (a member compared with, copied from or indexed by another)
IsBytesTy(ty) == ty.t = "bytes"
FitLen(ty, n) == IF ty.t = "bytes" THEN (IF ty.max < 0 THEN n ELSE Min2(n, ty.max))
                 ELSE IF ty.t = "str" THEN (IF ty.max < 0 THEN n ELSE Min2(n, ty.max)) ELSE Min2(n, ty.L)
RelatedPairs(s, F, host) ==
    LET min == MinOf(s, F, host)
        ms  == Members(s, F)
        \* (a byte string and a text can hold the same bytes too: a user handle equal to the user name)
        rel(i, j) == LET a == InnerTy(ms[i].ty)
                         b == InnerTy(ms[j].ty)
                     IN  (IsBytesTy(a) \/ IsTextTy(a)) /\ (IsBytesTy(b) \/ IsTextTy(b))
        val(ty, seed, n) == AsciiPattern(seed, FitLen(ty, n))
    IN  UNION {UNION {IF ~rel(i, j) THEN {} ELSE
                      LET a == InnerTy(ms[i].ty)
                          b == InnerTy(ms[j].ty)
                      IN  {[min EXCEPT ![ms[i].name] = WrapFor(ms[i], val(a, 61, 16)), ![ms[j].name] = WrapFor(ms[j], val(b, 61, 16))],    \* equal
                           [min EXCEPT ![ms[i].name] = WrapFor(ms[i], val(a, 61, 32)), ![ms[j].name] = WrapFor(ms[j], val(b, 61, 32))],    \* equal, one block
                           [min EXCEPT ![ms[i].name] = WrapFor(ms[i], val(a, 61, 8)), ![ms[j].name] = WrapFor(ms[j], val(b, 61, 20))],     \* a prefix of b
                           [min EXCEPT ![ms[i].name] = WrapFor(ms[i], val(a, 61, 20)), ![ms[j].name] = WrapFor(ms[j], val(b, 61, 8))],     \* b a prefix of a
                           [min EXCEPT ![ms[i].name] = WrapFor(ms[i], val(a, 61, 16)), ![ms[j].name] = WrapFor(ms[j], val(b, 62, 16))]}    \* equal lengths
                      : j \in (i + 1)..Len(ms)} : i \in 1..Len(ms)}

\* the minimal value with every TRIPLE of members at the upper end of their types
ThreeAtATime(s, F, host) ==
    LET min == MinOf(s, F, host)
        ms  == Members(s, F)        \* a member that is never serialised can still be SET: the encoder must ignore it
        hi(i) == WrapFor(ms[i], ExtHigh(InnerTy(ms[i].ty), F, host))
    IN  UNION {UNION {{[min EXCEPT ![ms[i].name] = hi(i), ![ms[j].name] = hi(j), ![ms[k].name] = hi(k)]
                          : k \in (j + 1)..Len(ms)} : j \in (i + 1)..Len(ms)} : i \in 1..Len(ms)}

\* a list of n default entries with one different entry at position k
ListWithOddOneAt(ety, n, k, odd, F, host) == [i \in 1..n |-> IF i = k THEN odd ELSE DefaultOf(ety, F, host)]

\* the minimal value of a schema, and that value with ONE member (present in F, and emitted in
\* the direction asked for) replaced by each alternative of its type
OneAtATime(s, F, host) ==
    LET min == MinOf(s, F, host)
        ms  == Members(s, F)        \* a member that is never serialised can still be SET: the encoder must ignore it
    IN  {min} \cup UNION {{[min EXCEPT ![ms[i].name] = WrapFor(ms[i], a)] : a \in Alts(InnerTy(ms[i].ty), F, host)} : i \in 1..Len(ms)}

=============================================================================
