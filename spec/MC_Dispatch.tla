------------------------------ MODULE MC_Dispatch -----------------------------
(* Scenario: every request variant x handler outcome x authenticator kind,     *)
(* through both entry points (the harness always runs both and compares), and  *)
(* complete exchanges host -> decode -> dispatch -> encode.  C10.              *)
EXTENDS Ctap, Gen, Lattice

Scripts2 == {[ok |-> TRUE, err |-> 0]} \cup {[ok |-> FALSE, err |-> e] : e \in {1, 25, 39, 46, 49, 54}}
Scripts1 == {[ok |-> TRUE, err |-> 0]} \cup {[ok |-> FALSE, err |-> e] : e \in {27013, 27264, 27904}}   \* 0x6985 0x6A80 0x6D00

WireOf(c) == IF CommandTable[c].kind = "params" THEN HostEncode(c, ReqFull(c, F), F) ELSE <<c, 1, 2, 3>>

Ctap2Cases ==
    {[op |-> "dispatch", tag |-> "ctap2", proto |-> "ctap2", variant |-> CommandTable[c].name, wire |-> WireOf(c),
      script |-> s, hasLb |-> lb] :
        c \in {1, 2, 4, 6, 7, 8, 10, 11, 12, 65} \cup {66, 100, 127}, s \in Scripts2, lb \in BOOLEAN}

Apdus == {[variant |-> "Register", wire |-> BuildApdu(0, 1, 0, 0, Pattern(1, 64), "extLe")],
          [variant |-> "Authenticate", wire |-> BuildApdu(0, 2, 3, 0, Pattern(2, 64) \o <<4>> \o Pattern(3, 4), "short")],
          [variant |-> "Authenticate", wire |-> BuildApdu(0, 2, 7, 0, Pattern(2, 64) \o <<0>>, "ext")],
          [variant |-> "Version", wire |-> BuildApdu(0, 3, 0, 0, << >>, "short")]}
Ctap1Cases ==
    {[op |-> "dispatch", tag |-> "ctap1", proto |-> "ctap1", variant |-> a.variant, wire |-> a.wire, script |-> s, hasLb |-> TRUE] :
        a \in Apdus, s \in Scripts1}

\* vendor requests built directly from every code of the vendor range (a request value need not
\* come from the decoder)
VendorCases ==
    {[op |-> "dispatch", tag |-> "vendor-constructed", proto |-> "ctap2-vendor", variant |-> "Vendor", wire |-> <<c>>,
      script |-> s, hasLb |-> TRUE] : c \in 64..127, s \in {[ok |-> TRUE, err |-> 0], [ok |-> FALSE, err |-> 39]}}

\* CTAP1 requests built directly (key handles longer than an APDU could carry, every control byte)
Ctap1Constructed ==
    {[op |-> "dispatch", tag |-> "ctap1-constructed", proto |-> "ctap1-constructed", variant |-> "Authenticate",
      wire |-> <<ctl>> \o Pattern(7, n), script |-> s, hasLb |-> TRUE] :
        ctl \in U2fControlBytes, n \in {0, 1, 255, 256, 257, 1024}, s \in Scripts1}

\* dispatch must not depend on WHAT the request carries: every member of every request over the
\* lattice of its type (integers up to the type maximum, strings up to the capacity, ...)
DispatchLattice ==
    UNION {{[op |-> "dispatch", tag |-> "dispatch-lattice", proto |-> "ctap2", variant |-> CommandTable[c].name,
             wire |-> HostEncode(c, sv, F), script |-> [ok |-> TRUE, err |-> 0], hasLb |-> lb] :
               sv \in OneAtATime(CommandTable[c].schema, F, TRUE), lb \in (IF c = 12 THEN BOOLEAN ELSE {TRUE})}
           : c \in {1, 2, 6, 10, 12}}
    \cup {[op |-> "dispatch", tag |-> "dispatch-lattice", proto |-> "ctap2", variant |-> "LargeBlobs",
            wire |-> HostEncode(12, [LbReqMin EXCEPT !.get = <<g>>, !.offset = o], F), script |-> s, hasLb |-> TRUE] :
              g \in {BN(0), BN(3008), BN(3009), BN(65536), BNMaxU32}, o \in {BN(0), BNMaxU32},
              s \in {[ok |-> TRUE, err |-> 0], [ok |-> FALSE, err |-> 51]}}

\* ... nor on a COMBINATION of members (a sub-command together with a permission set and a
\* missing relying party, say): every pair of members at the ends of their types, and every
\* triple at the upper ends
LCase(c, sv, s, lb, tag) ==
    [op |-> "dispatch", tag |-> tag, proto |-> "ctap2", variant |-> CommandTable[c].name,
     wire |-> HostEncode(c, sv, F), script |-> s, hasLb |-> lb]
DispatchPairs ==
    UNION {{LCase(c, sv, s, TRUE, "dispatch-pairs") :
               sv \in TwoAtATime(CommandTable[c].schema, F, TRUE) \cup RelatedPairs(CommandTable[c].schema, F, TRUE),
               s \in {[ok |-> TRUE, err |-> 0], [ok |-> FALSE, err |-> 49]}}
           : c \in {1, 2, 6, 10, 12}}
DispatchTriples ==
    UNION {{LCase(c, sv, [ok |-> TRUE, err |-> 0], TRUE, "dispatch-triples") : sv \in ThreeAtATime(CommandTable[c].schema, F, TRUE)}
           : c \in {1, 2, 6, 10, 12}}

\* ... nor on particular CONTENTS: the words of the source's dictionary in every text member, on
\* the bases "every optional member present, lowest value" and "... default value"
DispatchDict ==
    UNION {{LCase(c, sv, [ok |-> TRUE, err |-> 0], TRUE, "dispatch-dictionary") : sv \in DictLattice(CommandTable[c].schema, F, TRUE)}
           : c \in {1, 2, 6, 10, 12}}

\* ... nor on a sub-command TOGETHER with another member: every other member over its lattice once
\* per sub-command
DispatchModes ==
    UNION {{LCase(c, sv, [ok |-> TRUE, err |-> 0], TRUE, "dispatch-per-mode") : sv \in PerMode(CommandTable[c].schema, F, TRUE)} : c \in {6, 10}}

\* the dispatcher hands back WHATEVER the handler answered: several answers per handler (presence
\* bits clear under an enforcing control byte, counters at the extremes, empty and full responses)
AnswerCases ==
    {[op |-> "dispatch", tag |-> "handler-answer", proto |-> "ctap1", variant |-> a.variant, wire |-> a.wire,
      script |-> [ok |-> TRUE, err |-> 0, answer |-> k], hasLb |-> TRUE] : a \in Apdus, k \in 1..5}
    \cup {[op |-> "dispatch", tag |-> "handler-answer", proto |-> "ctap1-constructed", variant |-> "Authenticate",
            wire |-> <<ctl>> \o Pattern(7, 16), script |-> [ok |-> TRUE, err |-> 0, answer |-> k], hasLb |-> TRUE] : ctl \in U2fControlBytes, k \in 0..5}
    \cup {[op |-> "dispatch", tag |-> "handler-answer", proto |-> "ctap2", variant |-> CommandTable[c].name, wire |-> WireOf(c),
            script |-> [ok |-> TRUE, err |-> 0, answer |-> k], hasLb |-> TRUE] : c \in {6, 10, 65}, k \in 1..4}
    \* ... for every sub-command (an answer may be "wrong" for its sub-command: an empty enumeration,
    \* a token for getRetries -- the dispatcher is not the place that decides that)
    \cup {[op |-> "dispatch", tag |-> "handler-answer", proto |-> "ctap2", variant |-> CommandTable[c].name,
            wire |-> HostEncode(c, [CmReqMin EXCEPT !.subCommand = n], F),
            script |-> [ok |-> TRUE, err |-> 0, answer |-> k], hasLb |-> TRUE] : c \in {10, 65}, n \in CmSubcommands, k \in 0..6}
    \cup {[op |-> "dispatch", tag |-> "handler-answer", proto |-> "ctap2", variant |-> "ClientPin",
            wire |-> HostEncode(6, [CpReqMin EXCEPT !.subCommand = n], F),
            script |-> [ok |-> TRUE, err |-> 0, answer |-> k], hasLb |-> TRUE] : n \in PinSubcommands, k \in 0..5}

MC_Cases == AnswerCases \cup Ctap2Cases \cup Ctap1Cases \cup VendorCases \cup Ctap1Constructed \cup DispatchLattice \cup DispatchPairs \cup DispatchTriples
MC_CasesDict == DispatchDict \cup DispatchModes
MC_CasesDictDeep ==
    MC_CasesDict
    \cup UNION {{LCase(c, sv, [ok |-> TRUE, err |-> 0], TRUE, "dispatch-dictionary") : sv \in DictLatticeDeep(CommandTable[c].schema, F, TRUE)} : c \in {1, 2, 6, 10, 12}}
    \cup UNION {{LCase(c, sv, [ok |-> TRUE, err |-> 0], TRUE, "dispatch-per-mode") : sv \in PerModeDeep(CommandTable[c].schema, F, TRUE)} : c \in {6, 10}}

(***************************************************************************)
(* C10 on the model                                                        *)
(***************************************************************************)
ExactlyOneHandler ==
    phase = "returned" /\ case.op = "dispatch" =>
        LET h == HandlerOf(case.variant) IN
        IF case.variant = "LargeBlobs" /\ ~case.hasLb
        THEN calls = << >> /\ ~ret.ok /\ ret.err = 1
        ELSE /\ calls = <<h>>
             /\ (h \in Infallible => ret.ok)
             /\ (ret.ok => ret.kind = case.variant)
             /\ (~ret.ok => ret.err = case.script.err /\ ~case.script.ok)
             /\ (case.script.ok => ret.ok)

HandlersDistinct == \A a, b \in Ctap2Variants \cup Ctap1Variants : HandlerOf(a) = HandlerOf(b) => a = b
ASSUME HandlersDistinct
=============================================================================
