------------------------------ MODULE CtapTrace ------------------------------
(***************************************************************************)
(* Trace validation (impl -> spec).                                        *)
(*                                                                         *)
(* IOEnv.TRACE names an ndjson file of events recorded from the real       *)
(* library, one per public call:                                           *)
(*    {"line": n, "op": ..., "outcome": "return"|"panic"|"hang",           *)
(*     "in": {op, tag, props, <the call's arguments>}, "obs": {<results>}} *)
(* Each event is replayed through the specification's OWN actions          *)
(* (HostSends(e.in), Decode2 / Encode2 / ..., NextExchange): the behaviour *)
(* of the trace specification is a behaviour of Ctap!Spec.  When the       *)
(* exchange reaches its terminal phase the recorded results are compared   *)
(* with the specification's state (the BINDING) and every property the     *)
(* event serves is evaluated ON THE OBSERVED VALUES.                       *)
(*                                                                         *)
(* A rejected event does not stop validation (so the rest of the trace is  *)
(* still checked): the verdict of every event is printed as one line       *)
(*    VERDICT {"line": n, "bind": b, "unspec": u, "violated": [ids]}       *)
(* and the runner requires one verdict per event, none with a violation.   *)
(***************************************************************************)
EXTENDS Ctap, IOUtils

Rec == ndJsonDeserialize(IOEnv.TRACE)

Ev == Rec[nexch + 1]          \* the event being replayed (phase # "idle")

TraceHostSends == nexch < Len(Rec) /\ Rec[nexch + 1].outcome = "return" /\ HostSends(Rec[nexch + 1].in)

\* the generator's nondeterminism is resolved by the recorded value
TraceGenerate == nexch < Len(Rec) /\ Generate(Rec[nexch + 1].obs)

(***************************************************************************)
(* helpers                                                                 *)
(***************************************************************************)
RECURSIVE SetAsSeq(_)
SetAsSeq(S) == IF S = {} THEN << >> ELSE LET x == CHOOSE x \in S : TRUE IN <<x>> \o SetAsSeq(S \ {x})

SeqToSet(s) == {s[i] : i \in 1..Len(s)}
Props(e) == IF "props" \in DOMAIN e.in THEN SeqToSet(e.in.props) ELSE {}

RECURSIVE NormTree(_)
NormTree(v) ==
    CASE v.k = "array" -> CArr([i \in 1..Len(v.a) |-> NormTree(v.a[i])])
      [] v.k = "map"   -> CMap(SortPairs([i \in 1..Len(v.m) |-> <<NormTree(v.m[i][1]), NormTree(v.m[i][2])>>]))
      [] v.k = "tag"   -> CTag(v.n, NormTree(v.v))
      [] OTHER -> v

\* two CBOR items denote the same data item (map order and head widths aside)
SameItem(b1, b2) ==
    LET r1 == ParseItem(b1, 1)
        r2 == ParseItem(b2, 1)
    IN  /\ r1.ok /\ r2.ok /\ r1.p = Len(b1) + 1 /\ r2.p = Len(b2) + 1
        /\ NormTree(r1.v) = NormTree(r2.v)
        /\ (r1.v.k = "map" => Len(r1.v.m) = Len(r2.v.m))

Body(msg) == SubSeq(msg, 2, Len(msg))

(***************************************************************************)
(* decode2                                                                 *)
(***************************************************************************)
ThreeCodes == {ST_InvalidCommand, ST_InvalidCbor, ST_MissingParameter}

Verdict_decode2(e) ==
    LET o  == e.obs
        m  == DecodeRequest(e.in.wire, F)
        ps == Props(e)
        c04 == /\ o.again_same
               /\ (o.ok => o.status = 0 /\ o.clone_eq)
               /\ (~o.ok => o.status \in ThreeCodes)
        bind == /\ o.ok = req.ok /\ o.status = req.status /\ o.cmd = req.cmd /\ o.code = req.code
                /\ (o.ok /\ req.ok => o.v = req.v)
        \* status-only agreement for inputs whose value is not the point (byte-level mutations)
        \* a rejection reports the status ITS FAULT calls for: a message without any fault that is
        \* rejected (with whatever status) reports a fault that is not there
        c05 == IF m.ok THEN o.ok
               ELSE ~o.ok /\ o.status = m.status       \* must be rejected, with the status the fault calls for
        eqProps == ps \ {"C04", "C05"}
    IN  [bind |-> m.unspec \/ bind, unspec |-> m.unspec,
         violated |->
            (IF ~c04 THEN {"C04"} ELSE {})
            \cup (IF ~m.unspec /\ "C05" \in ps /\ ~c05 THEN {"C05"} ELSE {})
            \cup (IF ~m.unspec /\ ~bind THEN eqProps ELSE {})
            \cup (IF "C01" \in ps /\ o.ok /\ ~o.borrowed_inside THEN {"C01"} ELSE {})]

(***************************************************************************)
(* decode_type                                                             *)
(***************************************************************************)
Verdict_decode_type(e) ==
    LET o  == e.obs
        r  == Dec(TypeByName(e.in.type), e.in.bytes, 1, F)
        unspec == ~r.ok /\ r.e = "unspec"
        ps == Props(e)
        \* (values are compared only when both sides have one: an integer and "no value" do not compare)
        bind == o.ok = req.ok /\ o.err = req.err /\ (o.ok /\ req.ok => o.v = req.v)
        \* re-encoding what was decoded: the model's encoding of the model's value
        reencOk == ~r.ok \/ o.reenc = << >> \/ ~o.ok
                   \/ o.reenc[1] = EncTy(TypeByName(e.in.type), r.v, F)
        c04 == (o.ok => o.clone_eq) /\ (~o.ok => o.err \in {"invalid", "missing"})
    IN  [bind |-> unspec \/ bind, unspec |-> unspec,
         violated |->
            (IF ~c04 THEN {"C04"} ELSE {})
            \cup (IF ~unspec /\ ~bind THEN ps \ {"C04"} ELSE {})
            \cup (IF ~unspec /\ "C15" \in ps /\ ~reencOk THEN {"C15"} ELSE {})
            \cup (IF ~unspec /\ "C03" \in ps /\ o.ok /\ o.reenc # << >> /\ ~IsCanonical(o.reenc[1]) THEN {"C03"} ELSE {})]

(***************************************************************************)
(* encode2                                                                 *)
(***************************************************************************)
Verdict_encode2(e) ==
    LET o   == e.obs
        ps  == Props(e)
        exp == EncodeResponse(e.in.resp, F)
        big == o.buf_big
        c02 == /\ Len(big) >= 1 /\ big[1] = 0
               /\ \/ Len(exp) = 1 /\ Len(big) = 1
                  \/ Len(exp) > 1 /\ Len(big) > 1 /\ SameItem(Body(big), Body(exp))
        c03 == Len(big) = 1 \/ IsCanonical(Body(big))
        \* a complete message: status 0x00, then nothing or exactly one whole CBOR item
        complete(m) == /\ Len(m) >= 1 /\ m[1] = 0
                       /\ (Len(m) = 1 \/ (LET r == ParseItem(m, 2) IN r.ok /\ r.p = Len(m) + 1))
        \* the status byte alone is the complete message only of a response with no member set
        whole(m) == complete(m) /\ (Len(m) = 1 => Len(exp) = 1)
        c17 == /\ whole(big)                                     \* the 7609-byte buffer always fits
               /\ (o.buf = <<ST_Other>> \/ whole(o.buf))         \* never a truncated body
               /\ (Len(big) <= e.in.cap => o.buf = big)
               /\ (Len(big) > e.in.cap => o.buf = <<ST_Other>>)
               /\ o.buf_alt = o.buf                              \* independent of previous contents
        \* the status NUMBER the crate itself emits: Success (0x00) in front of every payload,
        \* Other (0x7F) alone, nothing else -- whatever the buffer held before
        statusOk(m) == /\ Len(m) >= 1 /\ m[1] \in {0, ST_Other}
                       /\ (Len(m) > 1 => m[1] = 0)
        c18 == statusOk(o.buf) /\ statusOk(o.buf_alt) /\ statusOk(big)
        \* what comes out decodes to what went in (the same set of key/value pairs), whatever the
        \* buffer held before
        sameValue(m) == \/ m = <<ST_Other>>
                        \/ Len(exp) = 1 /\ m = <<0>>
                        \* (the crate's own decoder refuses non-minimal heads: bytes it could not read back
                        \* are not an encoding of the value)
                        \/ Len(exp) > 1 /\ complete(m) /\ Len(m) > 1 /\ SameItem(Body(m), Body(exp)) /\ IsCanonical(Body(m))
        c15 == sameValue(o.buf) /\ sameValue(o.buf_alt) /\ sameValue(big)
        bind == o.buf = buf
    IN  [bind |-> bind, unspec |-> FALSE,
         violated |->
            (IF "C18" \in ps /\ ~c18 THEN {"C18"} ELSE {}) \cup
            (IF "C15" \in ps /\ ~c15 THEN {"C15"} ELSE {}) \cup
            (IF "C02" \in ps /\ ~c02 THEN {"C02"} ELSE {})
            \cup (IF "C03" \in ps /\ ~c03 THEN {"C03"} ELSE {})
            \cup (IF "C17" \in ps /\ ~c17 THEN {"C17"} ELSE {})
            \cup (IF ~bind /\ big # exp THEN ps \ {"C02", "C03", "C15", "C17", "C18"} ELSE {})]

(***************************************************************************)
(* encode_type                                                             *)
(***************************************************************************)
Verdict_encode_type(e) ==
    LET o  == e.obs
        ps == Props(e)
        bind == o.bytes = buf
    IN  [bind |-> bind, unspec |-> FALSE,
         violated |->
            (IF "C03" \in ps /\ ~IsCanonical(o.bytes) THEN {"C03"} ELSE {})
            \cup (IF "C02" \in ps /\ ~SameItem(o.bytes, buf) THEN {"C02"} ELSE {})
            \cup (IF ~bind THEN ps \ {"C02", "C03"} ELSE {})]

(***************************************************************************)
(* authenticator data                                                      *)
(***************************************************************************)
Verdict_authdata(e) ==
    LET o  == e.obs
        ps == Props(e)
        in == e.in.in
        bind == o.ok = ret.ok /\ o.bytes = ret.bytes
        fixedLen == 37 + (IF in.acd = << >> THEN 0
                          ELSE Len(in.acd[1].aaguid) + 2 + in.acd[1].idLen + Len(in.acd[1].pk))
        tail == SubSeq(o.bytes, fixedLen + 1, Len(o.bytes))
        c03 == ~o.ok \/ in.ext = << >> \/ (Len(o.bytes) > fixedLen /\ IsCanonical(tail))
    IN  [bind |-> bind, unspec |-> FALSE,
         violated |->
            (IF "C03" \in ps /\ ~c03 THEN {"C03"} ELSE {})
            \cup (IF ~bind THEN ps \ {"C03"} ELSE {})]

(***************************************************************************)
(* CTAP1                                                                   *)
(***************************************************************************)
Verdict_apdu(e) ==
    LET o  == e.obs
        bind == [framed |-> o.framed, ok |-> o.ok, sw |-> o.sw, req |-> o.req] = req
               /\ (o.framed => o.same_owned)
    IN  [bind |-> bind, unspec |-> FALSE, violated |-> IF bind THEN {} ELSE Props(e)]

Verdict_u2f_encode(e) ==
    LET o  == e.obs
        bind == /\ o.ok = ret.ok
                /\ o.kept = e.in.pre
                /\ (ret.ok => o.buf = ret.buf)
    IN  [bind |-> bind, unspec |-> FALSE, violated |-> IF bind THEN {} ELSE Props(e)]

Verdict_dispatch(e) ==
    LET o  == e.obs
        bind == /\ o.calls = ret.calls /\ o.ok = ret.ok /\ o.err = ret.err /\ o.kind = ret.kind
                /\ o.args_same /\ o.value_same /\ o.rpc_same
    IN  [bind |-> bind, unspec |-> FALSE, violated |-> IF bind THEN {} ELSE Props(e)]

\* a complete exchange: decoded request, call log and what is left in the transport buffer
Verdict_exchange(e) ==
    LET o == e.obs
        bind == o.req = req /\ o.calls = calls /\ o.buf = buf
    IN  [bind |-> bind, unspec |-> FALSE, violated |-> IF bind THEN {} ELSE Props(e)]

\* table look-ups: every field the model fixes must be observed with that value
Verdict_lookup(e) ==
    LET o == e.obs
        bind == \A k \in DOMAIN req : k \in DOMAIN o /\ o[k] = req[k]
    IN  [bind |-> bind, unspec |-> FALSE, violated |-> IF bind THEN {} ELSE Props(e)]

(***************************************************************************)
(* The verdict of the event whose exchange just reached its terminal phase *)
(***************************************************************************)
Verdict_arbitrary(e) ==
    [bind |-> TRUE, unspec |-> FALSE, violated |-> IF GeneratedValid THEN {} ELSE Props(e)]

\* The specification has NO action for a call that panics, hangs or aborts: such an event is
\* rejected.  It is consumed (so that the rest of the trace is still validated) and its
\* verdict names every property the event serves.
AbnormalVerdict(e) ==
    [line |-> e.line, bind |-> FALSE, unspec |-> FALSE,
     violated |-> SetAsSeq(Props(e) \cup (IF e.op \in {"decode2", "decode_type"} THEN {"C04"} ELSE {}))]

TraceAbnormal ==
    /\ phase = "idle" /\ nexch < Len(Rec) /\ Rec[nexch + 1].outcome # "return"
    /\ PrintT("VERDICT " \o ToJson(AbnormalVerdict(Rec[nexch + 1])))
    /\ nexch' = nexch + 1
    /\ UNCHANGED <<phase, case, wire, req, calls, ret, buf, stale>>

VerdictOf(e) ==
    IF e.outcome # "return"
    THEN [bind |-> FALSE, unspec |-> FALSE,
          violated |-> Props(e) \cup (IF e.op \in {"decode2", "decode_type"} THEN {"C04"} ELSE {})]
    ELSE CASE e.op = "decode2"     -> Verdict_decode2(e)
           [] e.op = "decode_type" -> Verdict_decode_type(e)
           [] e.op = "encode2"     -> Verdict_encode2(e)
           [] e.op = "encode_type" -> Verdict_encode_type(e)
           [] e.op = "authdata"    -> Verdict_authdata(e)
           [] e.op = "apdu"        -> Verdict_apdu(e)
           [] e.op = "u2f_encode"  -> Verdict_u2f_encode(e)
           [] e.op = "dispatch"    -> Verdict_dispatch(e)
           [] e.op \in LookupOps    -> Verdict_lookup(e)
           [] e.op = "exchange"    -> Verdict_exchange(e)
           [] e.op = "arbitrary"   -> Verdict_arbitrary(e)


Verdict ==
    Terminal =>
        LET e == Ev
            v == VerdictOf(e)
        IN  PrintT("VERDICT " \o ToJson([line |-> e.line, bind |-> v.bind, unspec |-> v.unspec,
                                          violated |-> SetAsSeq(v.violated)]))

TraceNext ==
    \/ TraceHostSends \/ TraceGenerate \/ TraceAbnormal
    \/ Decode2 \/ Decode1 \/ DecodeType \/ Lookup \/ Call \/ Reject
    \/ Encode2 \/ Encode1 \/ EncodeType \/ SerializeAuthDataAct
    \/ NextExchange

TraceSpec == Init /\ [][TraceNext]_vars


=============================================================================
