------------------------------ MODULE MC_Features -----------------------------
(* Scenario: the common corpus -- requests and responses that use only members *)
(* existing without any feature -- decoded / encoded under configuration F     *)
(* must behave exactly as under the empty configuration.  C16.                 *)
EXTENDS Ctap, Gen, Lattice

F0 == {}

CommonRequests ==
    UNION {{[op |-> "decode2", tag |-> "common-request", c |-> c, sv |-> <<sv>>, wire |-> HostEncode(c, sv, F0)] :
               sv \in SmallSubsetsOf(ReqMin(c), ReqOptVals(c, F0)) \cup {ReqRich(c, F0)}} : c \in ParamCommands}

\* the large-blobs REQUEST has no feature-gated member: its decoding must not depend on the
\* feature-dependent fragment constant either
LbWindows ==
    {[op |-> "decode2", tag |-> "common-request-lb", c |-> 12, sv |-> <<sv>>, wire |-> HostEncode(12, sv, F0)] :
        sv \in {[LbReqMin EXCEPT !.get = <<g>>] : g \in {BN(1), BN(255), BN(960), BN(961), BN(1024), BN(3008), BN(3009), BN(65536), BNMaxU32}}
               \cup {[LbReqMin EXCEPT !.set = <<Pattern(1, n)>>, !.length = <<BN(n)>>] : n \in {1, 255, 960, 961, 3008, 3009}}}

CommonResponses ==
    {RespCase("GetInfo", v, 7609, "common-response") : v \in SmallSubsetsOf(GiMin, GiOptionalVals(F0))}
    \cup {RespCase("GetInfo", [GiMin EXCEPT !.options = <<o>>], 7609, "common-response") : o \in SubsetsOf(GiOptMin, GiOptOptVals(F0))}
    \* the size-related members against each other at the values real transports have
    \cup {RespCase("GetInfo", [GiFull(F0) EXCEPT !.maxMsgSize = <<BN(m)>>, !.maxSerializedLargeBlobArray = <<BN(a)>>], 7609, "getinfo-size-grid") :
             m \in {64, 1024, 1200, 3072, 3073, 4096, 7609, 7610, 65536}, a \in {0, 1024, 3008, 3009, 4096, 65536}}
    \cup {RespCase("CredentialManagement", v, 7609, "common-response") : v \in SmallSubsetsOf(CmRespMin, CmRespOptVals(F0))}
    \cup {RespCase("ClientPin", v, 7609, "common-response") : v \in SubsetsOf(CpRespMin, CpRespOptVals)}
    \cup {RespCase("MakeCredential", v, 7609, "common-response") : v \in SubsetsOf(McRespMin, McRespOptVals)}
    \cup {RespCase("GetAssertion", v, 7609, "common-response") : v \in SmallSubsetsOf(GaRespMin, GaRespOptVals)}
    \cup {RespCase("LargeBlobs", [config |-> c], 7609, "common-response") : c \in {GNone, << << >> >>}}
    \cup {RespCase(k, << >>, 7609, "common-response") : k \in BodylessResponses}

CommonTypes ==
    {TypeEncCase("McExt", e, "common-type") : e \in SubsetsOf(McExtMin, McExtOptVals(F0))}
    \cup {TypeEncCase("GetInfoOptions", o, "common-type") : o \in SubsetsOf(GiOptMin, GiOptOptVals(F0))}
    \cup {TypeDecCase("GaExtIn", HostEncTy(T_Struct("GaExtIn"), e, F0), "common-type") : e \in SubsetsOf(GaExtInMin, GaExtInOptVals(F0))}
    \cup {[op |-> "authdata", tag |-> "common-authdata",
           in |-> [flavour |-> "mc", rpIdHash |-> Pattern(100, 32), flags |-> 193, count |-> BN(5),
                   acd |-> <<[aaguid |-> Pattern(102, 16), idLen |-> 32, idSeed |-> 103, pk |-> Pattern(101, 77)]>>,
                   ext |-> <<e>>]] : e \in SubsetsOf(McExtMin, McExtOptVals(F0))}

\* every member of the feature-independent types over the lattice of its type, members that are
\* never serialised included (a relying-party entity that carries the legacy icon)
CommonLattice ==
    UNION {{TypeEncCase(t, v, "common-type-lattice") : v \in OneAtATime(t, F0, FALSE)} : t \in {"Rp", "User", "Desc"}}
    \cup {RespCase("CredentialManagement", v, 7609, "common-response-lattice") : v \in OneAtATime("CmResp", F0, FALSE)}
    \cup {RespCase("ClientPin", v, 7609, "common-response-lattice") : v \in OneAtATime("CpResp", F0, FALSE)}

\* the capacity of the authenticator data is the same in every configuration
CommonAuthData ==
    {[op |-> "authdata", tag |-> "common-authdata-capacity",
      in |-> [flavour |-> "mc", rpIdHash |-> Pattern(100, 32), flags |-> 65, count |-> BN(5),
              acd |-> <<[aaguid |-> Pattern(102, 16), idLen |-> n, idSeed |-> 103, pk |-> Pattern(101, k)]>>, ext |-> GNone]] :
        k \in {77, 300, 367}, n \in {200, 244, 245, 254, 255, 256, 270, 290, 544, 545, 560}}

MC_Cases == CommonRequests \cup LbWindows \cup CommonResponses \cup CommonTypes \cup CommonLattice \cup CommonAuthData

\* Strictness: a GetInfo message carrying a key that does not exist in configuration F must be
\* refused under F (the integer-keyed maps are strict), and a key that exists must carry its type.
\* A member that slipped out of (or into) a feature gate shows up here as an accepted / refused key.
GiRequiredPairs == << <<CU(1), CArr(<<CText(N_FIDO_2_0)>>)>>, <<CU(3), CBytes(Pattern(50, 16))>> >>
StrictCases ==
    {TypeDecCase("GetInfoResp", Enc(CMap(SortPairs(Append(GiRequiredPairs, <<CU(k), v>>)))), "strict-key") :
        k \in (2..30) \ {3}, v \in {CU(4), CBool(TRUE), CArr(<< >>), CMap(<< >>)}}
    \cup {TypeDecCase("CpResp", Enc(CMap(<< <<CU(k), v>> >>)), "strict-key") : k \in 0..8, v \in {CU(4), CBool(TRUE), CBytes(<<1>>)}}
    \cup {TypeDecCase("LbResp", Enc(CMap(<< <<CU(k), CBytes(<< >>)>> >>)), "strict-key") : k \in 0..3}
    \cup {RawCase(<<c>> \o Enc(CMap(SortPairs(Append(ToTree(T_Indexed(CommandTable[c].schema), ReqMin(c), F, TRUE).m, <<CU(k), v>>)))), "strict-key-request") :
             c \in {1, 2, 6, 10, 12}, k \in {0, 5, 7, 8, 9, 10, 11, 12, 13}, v \in {CU(1), CBool(TRUE)}}

(***************************************************************************)
(* C16 on the model                                                        *)
(***************************************************************************)
\* table level, over ALL pairs of configurations: a member present in both has the same key,
\* type and optionality, and the common members appear in the same order
NamesSeq(ms) == [i \in 1..Len(ms) |-> ms[i].name]

ASSUME FeatureMonotoneTables ==
    \A F1 \in SUBSET Features, F2 \in SUBSET Features, s \in SchemaNames :
        LET m1 == Members(s, F1)
            m2 == Members(s, F2)
        IN  /\ \A i \in 1..Len(m1), j \in 1..Len(m2) :
                  m1[i].name = m2[j].name =>
                      /\ m1[i].key = m2[j].key /\ m1[i].req = m2[j].req /\ m1[i].alias = m2[j].alias
                      /\ (m1[i].ty = m2[j].ty \/ s = "LbResp")
            \* features only ADD members: the members of the smaller configuration keep their order
            /\ (F1 \subseteq F2 => \A i \in 1..Len(m1) : \E j \in 1..Len(m2) : m2[j].name = m1[i].name)
            /\ (F1 \subseteq F2 =>
                   LET common == SelectSeq(m2, LAMBDA m : \E i \in 1..Len(m1) : m1[i].name = m.name)
                   IN  NamesSeq(common) = NamesSeq(m1))

\* behaviour level: under F exactly as under the empty configuration
FeatureMonotone ==
    /\ (phase = "decoded" /\ case.op = "decode2" =>
            LET r0 == DecodeRequest(wire, F0) IN
            req = [ok |-> r0.ok, status |-> r0.status, cmd |-> r0.cmd, v |-> r0.v, code |-> r0.code])
    /\ (phase = "encoded" /\ case.op = "encode2" => buf = SerializeResponse(case.resp, F0, case.cap))
    /\ (phase = "encoded" /\ case.op = "encode_type" => buf = EncTy(TypeByName(case.type), case.v, F0))
    /\ (phase = "decoded" /\ case.op = "decode_type" =>
            LET r0 == Dec(TypeByName(case.type), case.bytes, 1, F0) IN req.ok = r0.ok /\ (r0.ok => req.v = r0.v))
    /\ (phase = "encoded" /\ case.op = "authdata" => ret = SerializeAuthData(case.in, F0))
=============================================================================
