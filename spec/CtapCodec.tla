----------------------------- MODULE CtapCodec ------------------------------
(***************************************************************************)
(* The wire codec of the authenticator side:                               *)
(*   - a STREAMING, schema-directed decoder Dec(ty, b, p, F): it walks the *)
(*     byte string left to right exactly once, so "which fault comes       *)
(*     first" (and therefore which status a rejected request gets) is      *)
(*     well defined;                                                       *)
(*   - a table-directed encoder ToTree(ty, v, F, host) + Cbor!Enc, used    *)
(*     both for authenticator responses (host = FALSE) and for what a      *)
(*     platform sends (host = TRUE: the lossy members carry their full     *)
(*     sent form);                                                         *)
(*   - Lossy(ty, sv, F): what the authenticator is documented to keep of a *)
(*     sent value;                                                         *)
(*   - the top-level DecodeRequest / EncodeResponse / SerializeResponse.   *)
(*                                                                         *)
(* Decoder results:                                                        *)
(*   [ok |-> TRUE,  v, p]                                                  *)
(*   [ok |-> FALSE, e, eof]   e \in {"invalid", "missing", "unspec"};      *)
(*        eof = the failure was running out of input (more bytes could     *)
(*        change the outcome); "unspec" = the parse entered a region no    *)
(*        listed property constrains (DESIGN.md section 7).                *)
(***************************************************************************)
EXTENDS CtapTables, Utf8

DOk(v, p)     == [ok |-> TRUE, v |-> v, p |-> p]
DErr(e, eof)  == [ok |-> FALSE, e |-> e, eof |-> eof]
DEof          == DErr("invalid", TRUE)
DInvalid      == DErr("invalid", FALSE)
DMissing      == DErr("missing", FALSE)
DUnspec       == DErr("unspec", FALSE)

(***************************************************************************)
(* Heads as the authenticator reads them: expected major type, shortest    *)
(* form required, argument at most maxw bytes wide (1: u8, 4: u32 and all  *)
(* lengths, 8: u64).  Additional information 28..31 (reserved, indefinite) *)
(* is rejected.                                                            *)
(***************************************************************************)
RawU(b, p, mt, maxw) ==
    IF p > Len(b) THEN DEof
    ELSE LET ib == b[p]
             ai == ib % 32
             w  == CASE ai = 24 -> 1 [] ai = 25 -> 2 [] ai = 26 -> 4 [] ai = 27 -> 8 [] OTHER -> 0
         IN  IF ib \div 32 # mt THEN DInvalid
             ELSE IF ai <= 23 THEN DOk(BN(ai), p + 1)
             ELSE IF ai >= 28 \/ w > maxw THEN DInvalid
             ELSE IF w > Len(b) - p THEN DEof
             ELSE LET arg == BNNorm(SubSeq(b, p + 1, p + w)) IN
                  IF MinWidth(arg) # w THEN DInvalid ELSE DOk(arg, p + 1 + w)

\* take n (a BigNat) bytes starting at p
TakeN(b, p, n) ==
    IF ~BNFitsInt(n) \/ BNToNat(n) > Len(b) - p + 1 THEN DEof
    ELSE DOk(SubSeq(b, p, p + BNToNat(n) - 1), p + BNToNat(n))

\* an element / entry count that cannot be completed is as good as "too many"
ClampCount(n, b) == IF BNFitsInt(n) /\ BNToNat(n) <= Len(b) THEN BNToNat(n) ELSE Len(b) + 1

DecU8(b, p) == LET r == RawU(b, p, 0, 1) IN IF r.ok THEN DOk(BNToNat(r.v), r.p) ELSE r

DecI32(b, p) ==
    IF p > Len(b) THEN DEof
    ELSE LET mt == b[p] \div 32 IN
         IF mt > 1 THEN DInvalid
         ELSE LET r == RawU(b, p, mt, 4) IN
              IF ~r.ok THEN r
              ELSE IF ~BNLE(r.v, BNMaxI32) THEN DInvalid
              ELSE DOk(IF mt = 0 THEN BNToNat(r.v) ELSE -1 - BNToNat(r.v), r.p)

\* COSE labels and constants are 8-bit signed.  (-129 is read as 127 by the CBOR
\* layer underneath; both are outside every table, so the quirk is invisible.)
DecI8(b, p) ==
    IF p > Len(b) THEN DEof
    ELSE LET mt == b[p] \div 32 IN
         IF mt > 1 THEN DInvalid
         ELSE LET r == RawU(b, p, mt, 1) IN
              IF ~r.ok THEN r
              ELSE LET n == BNToNat(r.v) IN
                   IF mt = 0 THEN (IF n <= 127 THEN DOk(n, r.p) ELSE DInvalid)
                   ELSE IF n <= 127 THEN DOk(-1 - n, r.p)
                   ELSE IF n = 128 THEN DOk(127, r.p)
                   ELSE DInvalid

DecBool(b, p) ==
    IF p > Len(b) THEN DEof
    ELSE IF b[p] = 244 THEN DOk(FALSE, p + 1)
    ELSE IF b[p] = 245 THEN DOk(TRUE, p + 1)
    ELSE DInvalid

DecUnit(b, p) ==
    IF p > Len(b) THEN DEof ELSE IF b[p] = 246 THEN DOk(<< >>, p + 1) ELSE DInvalid

\* byte string (an array head is read, then refused)
DecBytes(b, p) ==
    IF p > Len(b) THEN DEof
    ELSE LET mt == b[p] \div 32 IN
         IF mt = 4 THEN (LET r == RawU(b, p, 4, 4) IN IF r.ok THEN DInvalid ELSE r)
         ELSE IF mt = 2 THEN (LET r == RawU(b, p, 2, 4) IN IF ~r.ok THEN r ELSE TakeN(b, r.p, r.v))
         ELSE DInvalid

\* text string: definite length, shortest head, well-formed UTF-8
DecStr(b, p) ==
    LET r == RawU(b, p, 3, 4) IN
    IF ~r.ok THEN r
    ELSE LET t == TakeN(b, r.p, r.v) IN
         IF ~t.ok THEN t ELSE IF ~IsUtf8(t.v) THEN DInvalid ELSE t

\* the key of a text-keyed map: text (or byte) string; an integer key is resolved
\* by the deserialisation framework as a positional member index, which no
\* property constrains
DecIdent(b, p) ==
    IF p > Len(b) THEN DEof
    ELSE LET mt == b[p] \div 32 IN
         IF mt \in {2, 3} THEN
             (LET r == RawU(b, p, mt, 4) IN
              IF ~r.ok THEN r
              ELSE LET t == TakeN(b, r.p, r.v) IN
                   IF ~t.ok THEN t ELSE IF ~IsUtf8(t.v) THEN DInvalid ELSE t)
         ELSE IF mt = 0 THEN (LET r == RawU(b, p, 0, 8) IN IF r.ok THEN DUnspec ELSE r)
         ELSE DInvalid

(***************************************************************************)
(* The generic skipper applied to unknown members: consumes exactly one    *)
(* item.  Integers and tag numbers of any width (minimality not checked),  *)
(* strings / arrays / maps with shortest-form definite lengths, tags,      *)
(* floats and simple values; reserved and indefinite heads are refused.    *)
(***************************************************************************)
RECURSIVE Skip(_, _), SkipN(_, _, _)

SkipN(b, p, n) ==
    IF n = 0 THEN DOk(<< >>, p)
    ELSE LET r == Skip(b, p) IN IF ~r.ok THEN r ELSE SkipN(b, r.p, n - 1)

SkipArg(b, p) ==     \* head whose argument is ignored; p is in range
    LET ai == b[p] % 32
        w  == CASE ai = 24 -> 1 [] ai = 25 -> 2 [] ai = 26 -> 4 [] ai = 27 -> 8 [] OTHER -> 0
    IN  IF ai <= 23 THEN DOk(<< >>, p + 1)
        ELSE IF ai >= 28 THEN DInvalid
        ELSE IF w > Len(b) - p THEN DEof
        ELSE DOk(<< >>, p + 1 + w)

Skip(b, p) ==
    IF p > Len(b) THEN DEof
    ELSE LET mt == b[p] \div 32 IN
         CASE mt \in {0, 1, 7} -> SkipArg(b, p)
           [] mt \in {2, 3} -> (LET r == RawU(b, p, mt, 4) IN
                                IF ~r.ok THEN r
                                ELSE LET t == TakeN(b, r.p, r.v) IN IF ~t.ok THEN t ELSE DOk(<< >>, t.p))
           [] mt = 4 -> (LET r == RawU(b, p, 4, 4) IN
                         IF ~r.ok THEN r ELSE SkipN(b, r.p, ClampCount(r.v, b)))
           [] mt = 5 -> (LET r == RawU(b, p, 5, 4) IN
                         IF ~r.ok THEN r ELSE SkipN(b, r.p, 2 * ClampCount(r.v, b)))
           [] mt = 6 -> (LET r == SkipArg(b, p) IN IF ~r.ok THEN r ELSE Skip(b, r.p))

(***************************************************************************)
(* The typed decoder                                                       *)
(***************************************************************************)
FindIdx(ms, P(_)) ==
    LET idx == {i \in 1..Len(ms) : P(ms[i])} IN
    IF idx = {} THEN 0 ELSE CHOOSE i \in idx : \A j \in idx : i <= j

IsKnownParam(e) == e.type = N_publicKey /\ e.alg \in KnownAlgs
Take2(s) == SubSeq(s, 1, IF Len(s) < 2 THEN Len(s) ELSE 2)

CoseLabels == <<1, 3, -1, -2, -3>>
CoseEmpty == [kty |-> << >>, alg |-> << >>, crv |-> << >>, x |-> << >>, y |-> << >>]

RECURSIVE Dec(_, _, _, _),
          DecStructLoop(_, _, _, _, _, _, _), DecIndexedLoop(_, _, _, _, _, _, _),
          DecSeqLoop(_, _, _, _, _, _, _), DecParamsLoop(_, _, _, _, _),
          DecFormatsLoop(_, _, _, _, _), DecEmptyLoop(_, _, _),
          CoseStages(_, _, _, _, _, _)

\* finish a map: every required member seen?  acc: name -> option
FinishMap(s, F, acc, seen, p) ==
    LET ms == Members(s, F) IN
    IF \E i \in 1..Len(ms) : ms[i].req /\ ms[i].name \notin seen THEN DMissing
    ELSE DOk([nm \in AllNames(s) |->
                 IF MemberByName(s, F, nm).req THEN acc[nm][1] ELSE acc[nm]], p)

\* store a decoded member: required members hold a plain value, optional ones an option
Stored(m, v) == IF m.req THEN <<v>> ELSE v

DecStructLoop(s, b, p, n, acc, seen, F) ==
    IF n = 0 THEN FinishMap(s, F, acc, seen, p)
    ELSE LET k == DecIdent(b, p) IN
         IF ~k.ok THEN k
         ELSE LET ms == Members(s, F)
                  i  == FindIdx(ms, LAMBDA m : m.key.b = k.v \/ \E a \in 1..Len(m.alias) : m.alias[a].b = k.v)
              IN  IF i = 0 THEN
                      (LET r == Skip(b, k.p) IN
                       IF ~r.ok THEN r ELSE DecStructLoop(s, b, r.p, n - 1, acc, seen, F))
                  ELSE IF ms[i].name \in seen THEN DInvalid                  \* duplicate member
                  ELSE LET r == Dec(ms[i].ty, b, k.p, F) IN
                       IF ~r.ok THEN r
                       ELSE DecStructLoop(s, b, r.p, n - 1,
                                          [acc EXCEPT ![ms[i].name] = Stored(ms[i], r.v)],
                                          seen \cup {ms[i].name}, F)

DecIndexedLoop(s, b, p, n, acc, seen, F) ==
    IF n = 0 THEN FinishMap(s, F, acc, seen, p)
    ELSE LET k == RawU(b, p, 0, 8) IN
         IF ~k.ok THEN k
         ELSE LET ms == Members(s, F)
                  i  == FindIdx(ms, LAMBDA m : m.key.n = k.v)
              IN  IF i = 0 THEN DInvalid                                     \* unknown integer key
                  ELSE IF ms[i].name \in seen THEN DInvalid                  \* duplicate key
                  ELSE LET r == Dec(ms[i].ty, b, k.p, F) IN
                       IF ~r.ok THEN r
                       ELSE DecIndexedLoop(s, b, r.p, n - 1,
                                           [acc EXCEPT ![ms[i].name] = Stored(ms[i], r.v)],
                                           seen \cup {ms[i].name}, F)

\* a bounded list: the element one past the capacity is still decoded, then refused
DecSeqLoop(ety, max, b, p, n, acc, F) ==
    IF n = 0 THEN DOk(acc, p)
    ELSE LET r == Dec(ety, b, p, F) IN
         IF ~r.ok THEN r
         ELSE IF max >= 0 /\ Len(acc) >= max THEN DInvalid
         ELSE DecSeqLoop(ety, max, b, r.p, n - 1, Append(acc, r.v), F)

\* pubKeyCredParams: every entry must be a well-formed parameter; unknown ones are
\* dropped, the first two known ones kept
DecParamsLoop(b, p, n, acc, F) ==
    IF n = 0 THEN DOk(acc, p)
    ELSE LET r == Dec(T_Struct("Param"), b, p, F) IN
         IF ~r.ok THEN r
         ELSE DecParamsLoop(b, r.p, n - 1,
                            IF IsKnownParam(r.v) /\ Len(acc) < 2 THEN Append(acc, r.v.alg) ELSE acc, F)

\* attestationFormatsPreference: every entry must be a text string
DecFormatsLoop(b, p, n, known, unknown) ==
    IF n = 0 THEN DOk([known |-> known, unknown |-> unknown], p)
    ELSE LET r == DecStr(b, p) IN
         IF ~r.ok THEN r
         ELSE IF r.v \in FormatNames
              THEN DecFormatsLoop(b, r.p, n - 1, IF Len(known) < 2 THEN Append(known, r.v) ELSE known, unknown)
              ELSE DecFormatsLoop(b, r.p, n - 1, known, TRUE)

DecEmptyLoop(b, p, n) ==
    IF n = 0 THEN DOk(<< >>, p)
    ELSE LET k == DecIdent(b, p) IN
         IF ~k.ok THEN k
         ELSE LET r == Skip(b, k.p) IN IF ~r.ok THEN r ELSE DecEmptyLoop(b, r.p, n - 1)

(***************************************************************************)
(* COSE keys: labels must appear in the order 1, 3, -1, -2, -3, each at    *)
(* most once.  An unknown label ends the reading without consuming its     *)
(* value, after which nothing is specified.                                *)
(***************************************************************************)
\* next label: [ok, kind \in {"none", "label", "unknown"}, v, p, n]
CoseNextKey(b, p, n) ==
    IF n = 0 THEN [ok |-> TRUE, kind |-> "none", v |-> 0, p |-> p, n |-> 0]
    ELSE LET r == DecI8(b, p) IN
         IF ~r.ok THEN r
         ELSE [ok |-> TRUE, kind |-> (IF r.v \in {1, 3, -1, -2, -3} THEN "label" ELSE "unknown"),
               v |-> r.v, p |-> r.p, n |-> n - 1]

CoseValue(stage, b, p) ==
    IF stage <= 3 THEN
        (LET r == DecI8(b, p)
             tab == CASE stage = 1 -> CoseKtyValues [] stage = 2 -> CoseAlgValues [] stage = 3 -> CoseCrvValues
         IN  IF ~r.ok THEN r ELSE IF r.v \notin tab THEN DInvalid ELSE r)
    ELSE (LET r == DecBytes(b, p) IN IF r.ok /\ Len(r.v) > 32 THEN DInvalid ELSE r)

CoseStages(b, key, stage, acc, dummy, F) ==
    IF stage > 5 THEN
        (IF key.kind = "label" THEN DInvalid              \* out of order or repeated
         ELSE IF key.kind = "unknown" THEN DUnspec
         ELSE DOk(acc, key.p))
    ELSE IF key.kind = "unknown" THEN DUnspec
    ELSE IF key.kind = "label" /\ key.v = CoseLabels[stage] THEN
        (LET r == CoseValue(stage, b, key.p) IN
         IF ~r.ok THEN r
         ELSE LET nk == CoseNextKey(b, r.p, key.n)
                  fld == <<"kty", "alg", "crv", "x", "y">>[stage]
              IN  IF ~nk.ok THEN nk
                  ELSE CoseStages(b, nk, stage + 1, [acc EXCEPT ![fld] = <<r.v>>], dummy, F))
    ELSE CoseStages(b, key, stage + 1, acc, dummy, F)

CoseCheck(kind, raw, p) ==
    IF kind = "any" THEN
        (LET match(k) == LET c == CoseConst(k) IN
                 /\ raw.kty = <<c.kty>> /\ raw.alg = <<c.alg>>
                 /\ (IF c.hasCrv THEN raw.crv = <<c.crv>> ELSE raw.crv = << >>)
                 /\ (c.hasX <=> raw.x # << >>) /\ (c.hasY <=> raw.y # << >>)
             ks == {k \in CoseKinds : match(k)}
         IN  IF ks = {} THEN DInvalid
             ELSE LET k == CHOOSE k \in ks : TRUE IN
                  DOk([kind |-> k, x |-> (IF raw.x = << >> THEN << >> ELSE raw.x[1]),
                       y |-> (IF raw.y = << >> \/ ~CoseConst(k).hasY THEN << >> ELSE raw.y[1])], p))
    ELSE LET c == CoseConst(kind) IN
         IF raw.kty = << >> THEN DMissing
         ELSE IF raw.kty[1] # c.kty THEN DInvalid
         ELSE IF raw.alg # << >> /\ raw.alg[1] # c.alg THEN DInvalid
         ELSE IF c.hasCrv /\ raw.crv = << >> THEN DMissing
         ELSE IF c.hasCrv /\ raw.crv[1] # c.crv THEN DInvalid
         ELSE IF c.hasX /\ raw.x = << >> THEN DMissing
         ELSE IF c.hasY /\ raw.y = << >> THEN DMissing
         ELSE DOk([kind |-> kind, x |-> (IF c.hasX THEN raw.x[1] ELSE << >>),
                   y |-> (IF c.hasY THEN raw.y[1] ELSE << >>)], p)

DecCose(kind, b, p, F) ==
    LET h == RawU(b, p, 5, 4) IN
    IF ~h.ok THEN h
    ELSE LET k0 == CoseNextKey(b, h.p, ClampCount(h.v, b)) IN
         IF ~k0.ok THEN k0
         ELSE LET r == CoseStages(b, k0, 1, CoseEmpty, 0, F) IN
              IF ~r.ok THEN r ELSE CoseCheck(kind, r.v, r.p)

Dec(ty, b, p, F) ==
    CASE ty.t = "u8"   -> DecU8(b, p)
      [] ty.t = "u32"  -> RawU(b, p, 0, 4)
      [] ty.t = "u64"  -> RawU(b, p, 0, 8)
      [] ty.t = "i32"  -> DecI32(b, p)
      [] ty.t = "bool" -> DecBool(b, p)
      [] ty.t = "unit" -> DecUnit(b, p)
      [] ty.t = "bytes" ->
            (LET r == DecBytes(b, p) IN
             IF r.ok /\ ty.max >= 0 /\ Len(r.v) > ty.max THEN DInvalid ELSE r)
      [] ty.t = "bytesExact" ->
            (LET r == DecBytes(b, p) IN IF r.ok /\ Len(r.v) # ty.n THEN DInvalid ELSE r)
      [] ty.t = "str" ->
            (LET r == DecStr(b, p) IN
             IF r.ok /\ ty.max >= 0 /\ Len(r.v) > ty.max THEN DInvalid ELSE r)
      [] ty.t = "strTrunc" ->
            (IF p > Len(b) THEN DEof
             ELSE IF b[p] = 246 THEN DOk(<< >>, p + 1)
             \* operationally: scan the four bytes ending at the cut for a character boundary
             ELSE LET r == DecStr(b, p) IN
                  IF ~r.ok THEN r ELSE DOk(<<SubSeq(r.v, 1, FloorBoundaryWindow(r.v, ty.L))>>, r.p))
      [] ty.t = "strSkip" ->
            (LET r == DecStr(b, p) IN
             IF ~r.ok THEN r ELSE DOk(IF Len(r.v) <= ty.L THEN <<r.v>> ELSE << >>, r.p))
      [] ty.t = "iconInner" ->
            (LET r == DecStr(b, p) IN IF ~r.ok THEN r ELSE DOk(<< >>, r.p))
      [] ty.t = "enumU8" ->
            (LET r == DecU8(b, p) IN IF r.ok /\ r.v \notin ty.set THEN DInvalid ELSE r)
      [] ty.t = "enumStr" ->
            (LET r == DecStr(b, p) IN IF r.ok /\ r.v \notin ty.tab THEN DInvalid ELSE r)
      [] ty.t = "seq" ->
            (LET h == RawU(b, p, 4, 4) IN
             IF ~h.ok THEN h ELSE DecSeqLoop(ty.e, ty.max, b, h.p, ClampCount(h.v, b), << >>, F))
      [] ty.t = "params" ->
            (LET h == RawU(b, p, 4, 4) IN
             IF ~h.ok THEN h ELSE DecParamsLoop(b, h.p, ClampCount(h.v, b), << >>, F))
      [] ty.t = "formats" ->
            (LET h == RawU(b, p, 4, 4) IN
             IF ~h.ok THEN h ELSE DecFormatsLoop(b, h.p, ClampCount(h.v, b), << >>, FALSE))
      [] ty.t = "struct" ->
            (LET h == RawU(b, p, 5, 4) IN
             IF ~h.ok THEN h
             ELSE DecStructLoop(ty.s, b, h.p, ClampCount(h.v, b),
                                [nm \in AllNames(ty.s) |-> << >>], {}, F))
      [] ty.t = "indexed" ->
            (LET h == RawU(b, p, 5, 4) IN
             IF ~h.ok THEN h
             ELSE DecIndexedLoop(ty.s, b, h.p, ClampCount(h.v, b),
                                 [nm \in AllNames(ty.s) |-> << >>], {}, F))
      [] ty.t = "empty" ->
            (LET h == RawU(b, p, 5, 4) IN
             IF ~h.ok THEN h ELSE DecEmptyLoop(b, h.p, ClampCount(h.v, b)))
      [] ty.t = "cose" -> DecCose(ty.kind, b, p, F)
      [] ty.t = "opt" ->
            (IF p > Len(b) THEN DEof
             ELSE IF b[p] = 246 THEN DOk(<< >>, p + 1)
             ELSE LET r == Dec(ty.i, b, p, F) IN IF ~r.ok THEN r ELSE DOk(<<r.v>>, r.p))
      [] ty.t = "some" ->
            (LET r == Dec(ty.i, b, p, F) IN IF ~r.ok THEN r ELSE DOk(<<r.v>>, r.p))
      [] OTHER -> DUnspec

(***************************************************************************)
(* Value -> CBOR tree.  Maps are emitted in canonical key order.           *)
(***************************************************************************)
ParamTree(alg, type) == CMap(<< <<CText(N_alg), CInt(alg)>>, <<CText(N_type), CText(type)>> >>)

CoseTree(v) ==
    LET c == CoseConst(v.kind) IN
    CMap( << <<CInt(1), CInt(c.kty)>>, <<CInt(3), CInt(c.alg)>> >>
          \o (IF c.hasCrv THEN << <<CInt(-1), CInt(c.crv)>> >> ELSE << >>)
          \o (IF c.hasX THEN << <<CInt(-2), CBytes(v.x)>> >> ELSE << >>)
          \o (IF c.hasY THEN << <<CInt(-3), CBytes(v.y)>> >> ELSE << >>) )

RECURSIVE ToTree(_, _, _, _)

\* the value of a present member of option type
Unwrapped(ty, opt) == opt[1]
InnerTy(ty) == IF ty.t \in {"opt", "some"} THEN ty.i ELSE ty

MapTree(s, v, F, host) ==
    LET ms  == SelectSeq(Members(s, F),
                         LAMBDA m : (m.ser \/ host) /\ (m.req \/ v[m.name] # << >>))
    IN  CMap(SortPairs([i \in 1..Len(ms) |->
              <<ms[i].key,
                IF ms[i].req THEN ToTree(ms[i].ty, v[ms[i].name], F, host)
                ELSE ToTree(InnerTy(ms[i].ty), v[ms[i].name][1], F, host)>>]))

ToTree(ty, v, F, host) ==
    CASE ty.t = "u8"   -> CU(v)
      [] ty.t = "u32"  -> CUInt(v)
      [] ty.t = "u64"  -> CUInt(v)
      [] ty.t = "i32"  -> CInt(v)
      [] ty.t = "bool" -> CBool(v)
      [] ty.t = "unit" -> CNull
      [] ty.t \in {"bytes", "bytesExact"} -> CBytes(v)
      [] ty.t \in {"str", "strTrunc", "strSkip", "iconInner", "enumStr"} -> CText(v)
      [] ty.t = "enumU8" -> CU(v)
      [] ty.t = "seq" -> CArr([i \in 1..Len(v) |-> ToTree(ty.e, v[i], F, host)])
      [] ty.t = "params" ->
            (IF host THEN CArr([i \in 1..Len(v) |-> ParamTree(v[i].alg, v[i].type)])
                     ELSE CArr([i \in 1..Len(v) |-> ParamTree(v[i], N_publicKey)]))
      [] ty.t = "formats" -> CArr([i \in 1..Len(v) |-> CText(v[i])])      \* host only
      [] ty.t \in {"struct", "indexed"} -> MapTree(ty.s, v, F, host)
      [] ty.t = "cose" -> CoseTree(v)
      [] ty.t = "attStmt" ->
            (IF v.packed THEN MapTree("PackedStmt", [alg |-> v.alg, sig |-> v.sig, x5c |-> v.x5c], F, host)
                         ELSE CMap(<< >>))
      [] ty.t = "empty" -> CMap(<< >>)
      [] ty.t \in {"opt", "some"} -> ToTree(ty.i, v[1], F, host)

EncTy(ty, v, F)     == Enc(ToTree(ty, v, F, FALSE))
HostEncTy(ty, sv, F) == Enc(ToTree(ty, sv, F, TRUE))

(***************************************************************************)
(* What the authenticator keeps of a sent value (the documented lossy      *)
(* members; everything else is the identity).                              *)
(***************************************************************************)
RECURSIVE Lossy(_, _, _)

LossyMember(m, sv, F) ==
    IF m.req THEN Lossy(m.ty, sv, F)
    ELSE IF sv = << >> THEN << >>
    ELSE CASE m.ty.t = "strTrunc" -> <<TruncateTo(sv[1], m.ty.L)>>
           [] m.ty.t = "strSkip"  -> (IF Len(sv[1]) <= m.ty.L THEN sv ELSE << >>)
           [] m.ty.t \in {"opt", "some"} -> <<Lossy(m.ty.i, sv[1], F)>>

Lossy(ty, sv, F) ==
    CASE ty.t = "iconInner" -> << >>
      [] ty.t = "params" ->
            (LET ks == Take2(SelectSeq(sv, IsKnownParam)) IN [i \in 1..Len(ks) |-> ks[i].alg])
      [] ty.t = "formats" ->
            [known |-> Take2(SelectSeq(sv, LAMBDA f : f \in FormatNames)),
             unknown |-> \E i \in 1..Len(sv) : sv[i] \notin FormatNames]
      [] ty.t = "seq" -> [i \in 1..Len(sv) |-> Lossy(ty.e, sv[i], F)]
      [] ty.t \in {"struct", "indexed"} ->
            [nm \in AllNames(ty.s) |->
                LET m == MemberByName(ty.s, F, nm) IN
                IF m.feat # "" /\ m.feat \notin F THEN << >> ELSE LossyMember(m, sv[nm], F)]
      [] OTHER -> sv

(***************************************************************************)
(* Top level                                                               *)
(***************************************************************************)
\* Result of decoding a request message:
\*   [ok |-> TRUE,  status |-> 0, cmd, v, code, eof |-> FALSE, unspec |-> FALSE]
\*   [ok |-> FALSE, status,       cmd |-> "", v |-> <<>>, code |-> 0, eof, unspec]
ReqOk(cmd, v, code)        == [ok |-> TRUE, status |-> 0, cmd |-> cmd, v |-> v, code |-> code,
                               eof |-> FALSE, unspec |-> FALSE]
ReqErr(status, eof, unspec) == [ok |-> FALSE, status |-> status, cmd |-> "", v |-> << >>, code |-> 0,
                                eof |-> eof, unspec |-> unspec]

StatusOfErr(e) == IF e = "missing" THEN ST_MissingParameter ELSE ST_InvalidCbor

DecodeRequest(wire, F) ==
    IF Len(wire) = 0 THEN ReqErr(ST_InvalidCbor, TRUE, FALSE)
    ELSE LET c == CommandTable[wire[1]] IN
         CASE c.kind \in {"unassigned", "unsupported"} -> ReqErr(ST_InvalidCommand, FALSE, FALSE)
           [] c.kind = "noparams" -> ReqOk(c.name, << >>, 0)
           [] c.kind = "vendor"   -> ReqOk("Vendor", << >>, wire[1])
           [] c.kind = "params"   ->
                LET r == Dec(T_Indexed(c.schema), wire, 2, F) IN
                IF r.ok THEN ReqOk(c.name, r.v, 0)
                ELSE ReqErr(StatusOfErr(r.e), r.eof, r.e = "unspec")

\* what a platform sends for command byte c with sent parameters sv
HostEncode(c, sv, F) == <<c>> \o HostEncTy(T_Indexed(CommandTable[c].schema), sv, F)
LossyRequest(c, sv, F) == Lossy(T_Indexed(CommandTable[c].schema), sv, F)

\* Response: [kind, v].  The complete message.
EncodeResponse(r, F) ==
    IF r.kind \in BodylessResponses THEN <<0>>
    ELSE LET body == EncTy(T_Indexed(RespSchema(r.kind)), r.v, F) IN
         IF body = <<160>> THEN <<0>> ELSE <<0>> \o body

\* what is left in a transport buffer of capacity cap (>= 1): complete or 0x7F
SerializeResponse(r, F, cap) ==
    LET msg == EncodeResponse(r, F) IN IF Len(msg) <= cap THEN msg ELSE <<ST_Other>>

=============================================================================
