----------------------------- MODULE MC_Lattice ------------------------------
(* Scenario: every bounded request member at limit-1, limit, limit+1 and far   *)
(* beyond; every integer member across its type range; unbounded borrows up to *)
(* the message limit.  C12 (and C01's "exactly the value sent").  The limits   *)
(* below are the numbers the property states, written here independently of    *)
(* the capacities in CtapTables.                                               *)
EXTENDS Ctap, Gen, Faults, Dict

Idx(i) == [idx |-> i]

\* path of the node reached by following map keys / array indices
RECURSIVE PathOf(_, _)
PathOf(tree, keys) ==
    IF keys = << >> THEN << >>
    ELSE IF "idx" \in DOMAIN keys[1]
         THEN <<keys[1].idx>> \o PathOf(tree.a[keys[1].idx], Tail(keys))
         ELSE LET i == CHOOSE j \in 1..Len(tree.m) : tree.m[j][1] = keys[1] IN
              <<2 * i>> \o PathOf(tree.m[i][2], Tail(keys))

FullTree(c) == ToTree(T_Indexed(CommandTable[c].schema), ReqRich(c, F), F, TRUE)

LatCase(c, keys, node, expect, tag) ==
    [op |-> "decode2", tag |-> tag, c |-> c, sv |-> << >>, expect |-> expect,
     wire |-> <<c>> \o Enc(Put(FullTree(c), PathOf(FullTree(c), keys), node))]

Sizes(limit) == {0, 1, limit - 1, limit, limit + 1, 4 * limit} \ {-1}

\* ----- byte / text / list members: [c, keys, limit, mk(n), exact, drop]
DescNode(i) == ToTree(T_Struct("DescRef"), GDesc(i), F, TRUE)

SizeRows == {
    [c |-> 1,  keys |-> <<CU(3), CText(N_id)>>,                       limit |-> 64,  kind |-> "bytes", exact |-> FALSE, drop |-> FALSE, name |-> "user.id"],
    [c |-> 10, keys |-> <<CU(2), CU(3), CText(N_id)>>,                limit |-> 64,  kind |-> "bytes", exact |-> FALSE, drop |-> FALSE, name |-> "cm.user.id"],
    [c |-> 1,  keys |-> <<CU(2), CText(N_id)>>,                       limit |-> 256, kind |-> "text",  exact |-> FALSE, drop |-> FALSE, name |-> "rp.id"],
    [c |-> 1,  keys |-> <<CU(3), CText(N_icon)>>,                     limit |-> 128, kind |-> "text",  exact |-> FALSE, drop |-> TRUE,  name |-> "user.icon"],
    [c |-> 10, keys |-> <<CU(2), CU(3), CText(N_icon)>>,              limit |-> 128, kind |-> "text",  exact |-> FALSE, drop |-> TRUE,  name |-> "cm.user.icon"],
    [c |-> 1,  keys |-> <<CU(4), Idx(1), CText(N_type)>>,             limit |-> 32,  kind |-> "text",  exact |-> FALSE, drop |-> FALSE, name |-> "param.type"],
    [c |-> 2,  keys |-> <<CU(3)>>,                                    limit |-> 10,  kind |-> "list",  exact |-> FALSE, drop |-> FALSE, name |-> "allowList"],
    [c |-> 1,  keys |-> <<CU(5)>>,                                    limit |-> 16,  kind |-> "list",  exact |-> FALSE, drop |-> FALSE, name |-> "excludeList"],
    [c |-> 2,  keys |-> <<CU(4), CText(N_hmacSecret), CU(2)>>,        limit |-> 80,  kind |-> "bytes", exact |-> FALSE, drop |-> FALSE, name |-> "saltEnc"],
    [c |-> 2,  keys |-> <<CU(4), CText(N_hmacSecret), CU(3)>>,        limit |-> 32,  kind |-> "bytes", exact |-> FALSE, drop |-> FALSE, name |-> "saltAuth"],
    [c |-> 6,  keys |-> <<CU(3), CInt(-2)>>,                          limit |-> 32,  kind |-> "bytes", exact |-> FALSE, drop |-> FALSE, name |-> "cose.x"],
    [c |-> 6,  keys |-> <<CU(3), CInt(-3)>>,                          limit |-> 32,  kind |-> "bytes", exact |-> FALSE, drop |-> FALSE, name |-> "cose.y"],
    [c |-> 2,  keys |-> <<CU(4), CText(N_hmacSecret), CU(1), CInt(-2)>>, limit |-> 32, kind |-> "bytes", exact |-> FALSE, drop |-> FALSE, name |-> "hmac.cose.x"],
    [c |-> 10, keys |-> <<CU(2), CU(1)>>,                             limit |-> 32,  kind |-> "bytes", exact |-> TRUE,  drop |-> FALSE, name |-> "rpIDHash"],
    [c |-> 65, keys |-> <<CU(2), CU(1)>>,                             limit |-> 32,  kind |-> "bytes", exact |-> TRUE,  drop |-> FALSE, name |-> "rpIDHash-0x41"] }

SizeNode(kind, n) ==
    CASE kind = "bytes" -> CBytes(Pattern(90, n))
      [] kind = "text"  -> CText(AsciiPattern(9, n))
      [] kind = "list"  -> CArr([i \in 1..n |-> DescNode(i % 7)])

SizeExpect(r, n) ==
    IF r.exact THEN (IF n = r.limit THEN "accept" ELSE "reject")
    ELSE IF n <= r.limit THEN "accept" ELSE IF r.drop THEN "drop" ELSE "reject"

SizeCases ==
    UNION {{LatCase(r.c, r.keys, SizeNode(r.kind, n), SizeExpect(r, n), "limit:" \o r.name) : n \in Sizes(r.limit)} : r \in SizeRows}

\* the limit of a text member counts BYTES, wherever the characters fall: texts of 2-, 3- and 4-byte
\* characters whose byte length runs across the limit at every alignment
MbText(w, n) == LET ch == EncodeScalar(CASE w = 2 -> 233 [] w = 3 -> 8364 [] w = 4 -> 128512)
                    k  == n \div w
                IN  AsciiPattern(9, n - k * w) \o [i \in 1..(k * w) |-> ch[((i - 1) % w) + 1]]
MultiByteSizeCases ==
    UNION {{LatCase(r.c, r.keys, CText(MbText(w, n)), SizeExpect(r, n), "limit-multibyte:" \o r.name) :
               w \in {2, 3, 4}, n \in (r.limit - 4)..(r.limit + 5)} : r \in {x \in SizeRows : x.kind = "text"}}

\* ----- unbounded zero-copy borrows: accepted whatever the length, up to the message limit
UnboundedRows == {
    [c |-> 1,  keys |-> <<CU(1)>>, kind |-> "bytes", name |-> "mc.clientDataHash"],
    [c |-> 1,  keys |-> <<CU(8)>>, kind |-> "bytes", name |-> "mc.pinUvAuthParam"],
    [c |-> 2,  keys |-> <<CU(1)>>, kind |-> "text",  name |-> "ga.rpId"],
    [c |-> 2,  keys |-> <<CU(3), Idx(1), CText(N_id)>>, kind |-> "bytes", name |-> "descriptor.id"],
    [c |-> 6,  keys |-> <<CU(5)>>, kind |-> "bytes", name |-> "cp.newPinEnc"],
    [c |-> 6,  keys |-> <<CU(10)>>, kind |-> "text", name |-> "cp.rpId"],
    [c |-> 12, keys |-> <<CU(2)>>, kind |-> "bytes", name |-> "lb.set"] }
UnboundedCases ==
    UNION {{LatCase(r.c, r.keys, SizeNode(r.kind, n), "accept", "unbounded:" \o r.name) :
               n \in {0, 1, 23, 24, 255, 256, 1024, 7000}} : r \in UnboundedRows}

\* ----- integer members
U8Rows == {
    [c |-> 6,  keys |-> <<CU(1)>>, name |-> "cp.pinUvAuthProtocol"],
    [c |-> 6,  keys |-> <<CU(9)>>, name |-> "cp.permissions"],
    [c |-> 10, keys |-> <<CU(3)>>, name |-> "cm.pinUvAuthProtocol"],
    [c |-> 1,  keys |-> <<CU(6), CText(N_credProtect)>>, name |-> "credProtect"] }
U32Rows == {
    [c |-> 1,  keys |-> <<CU(9)>>,  name |-> "mc.pinUvAuthProtocol"],
    [c |-> 1,  keys |-> <<CU(10)>>, name |-> "mc.enterpriseAttestation"],
    [c |-> 2,  keys |-> <<CU(7)>>,  name |-> "ga.pinUvAuthProtocol"],
    [c |-> 2,  keys |-> <<CU(8)>>,  name |-> "ga.enterpriseAttestation"],
    [c |-> 2,  keys |-> <<CU(4), CText(N_hmacSecret), CU(4)>>, name |-> "hmac.pinUvAuthProtocol"],
    [c |-> 12, keys |-> <<CU(1)>>,  name |-> "lb.get"],
    [c |-> 12, keys |-> <<CU(3)>>,  name |-> "lb.offset"],
    [c |-> 12, keys |-> <<CU(4)>>,  name |-> "lb.length"],
    [c |-> 12, keys |-> <<CU(6)>>,  name |-> "lb.pinUvAuthProtocol"] }

B2_63 == <<128, 0, 0, 0, 0, 0, 0, 0>>
UIntLattice(max) == {BN(0), BN(1), BN(23), BN(24), max, BNSucc(max), BNSucc(BNMaxU32), B2_63, BNMaxU64}
                    \cup (IF max = BNMaxU8 THEN {BN(254)} ELSE {BN(255), BN(256), BN(65535), BN(65536), <<255, 255, 255, 254>>})

IntCases ==
    UNION {{LatCase(r.c, r.keys, CUInt(n), IF BNLE(n, BNMaxU8) THEN "accept" ELSE "reject", "range-u8:" \o r.name) :
               n \in UIntLattice(BNMaxU8)} : r \in U8Rows}
    \cup UNION {{LatCase(r.c, r.keys, CUInt(n), IF BNLE(n, BNMaxU32) THEN "accept" ELSE "reject", "range-u32:" \o r.name) :
               n \in UIntLattice(BNMaxU32)} : r \in U32Rows}
    \* algorithm identifiers: the 32-bit signed range (CNInt(n) is the integer -1-n)
    \cup {LatCase(1, <<CU(4), Idx(1), CText(N_alg)>>, v.node, v.expect, "range-i32:alg") :
             v \in {[node |-> CNInt(<<128, 0, 0, 0>>), expect |-> "reject"],        \* -2^31-1
                    [node |-> CNInt(BNMaxI32), expect |-> "accept"],                \* -2^31
                    [node |-> CNInt(BN(65536)), expect |-> "accept"],
                    [node |-> CNInt(BN(0)), expect |-> "accept"],
                    [node |-> CUInt(BN(0)), expect |-> "accept"],
                    [node |-> CUInt(BNMaxI32), expect |-> "accept"],                \* 2^31-1
                    [node |-> CUInt(<<128, 0, 0, 0>>), expect |-> "reject"],        \* 2^31
                    [node |-> CUInt(BNMaxU32), expect |-> "reject"],
                    [node |-> CNInt(BNMaxU32), expect |-> "reject"]}}

\* the type-string limit applies to every entry of the list, whatever its algorithm
ParamTypeCases ==
    {SentCase(1, [ReqRich(1, F) EXCEPT !.pubKeyCredParams = <<[alg |-> a, type |-> AsciiPattern(3, n)], ParamOf(ALG_ES256)>>],
              "limit:param.type-any-alg", F) @@ [expect |-> IF n <= 32 THEN "accept" ELSE "reject"] :
        a \in {ALG_ES256, ALG_EdDSA, -257, 0, 1}, n \in {0, 31, 32, 33, 64}}
    \cup {SentCase(1, [ReqRich(1, F) EXCEPT !.pubKeyCredParams = <<ParamOf(ALG_ES256), ParamOf(ALG_EdDSA), [alg |-> a, type |-> AsciiPattern(3, n)]>>],
              "limit:param.type-after-known", F) @@ [expect |-> IF n <= 32 THEN "accept" ELSE "reject"] :
        a \in {ALG_ES256, -257}, n \in {32, 33}}

\* the integer range of `alg` applies to every entry as well (position 3, after two kept entries)
AlgNode(n, neg) == CMap(<< <<CText(N_alg), IF neg THEN CNInt(n) ELSE CUInt(n)>>, <<CText(N_type), CText(N_publicKey)>> >>)
ParamAlgCases ==
    {LatCase(1, <<CU(4)>>, CArr(pre \o <<AlgNode(v.n, v.neg)>> \o post), v.expect, "range-i32:alg-any-position") :
        pre \in {<< >>, <<AlgNode(BN(6), TRUE)>>, <<AlgNode(BN(6), TRUE), AlgNode(BN(7), TRUE)>>, <<AlgNode(BN(6), TRUE), AlgNode(BN(6), TRUE)>>},
        post \in {<< >>, <<AlgNode(BN(256), TRUE)>>},
        v \in {[n |-> <<128, 0, 0, 0>>, neg |-> FALSE, expect |-> "reject"], [n |-> <<128, 0, 0, 0>>, neg |-> TRUE, expect |-> "reject"],
               [n |-> BNMaxI32, neg |-> FALSE, expect |-> "accept"], [n |-> BNMaxI32, neg |-> TRUE, expect |-> "accept"],
               [n |-> BNSucc(BNMaxU32), neg |-> FALSE, expect |-> "reject"],
               \* congruent to -7 / -8 modulo 2^32 and 2^64 (a wider integer narrowed by a cast)
               [n |-> <<255, 255, 255, 249>>, neg |-> FALSE, expect |-> "reject"], [n |-> <<255, 255, 255, 248>>, neg |-> FALSE, expect |-> "reject"],
               [n |-> <<1, 0, 0, 0, 6>>, neg |-> TRUE, expect |-> "reject"], [n |-> <<1, 0, 0, 0, 7>>, neg |-> TRUE, expect |-> "reject"],
               [n |-> <<255, 255, 255, 255, 255, 255, 255, 249>>, neg |-> FALSE, expect |-> "reject"]}}

\* a value within its limit is accepted whatever its CONTENT: the words of the source's dictionary
\* alone and as a prefix, white space at either end, in every bounded text and byte member
ContentWords(limit) ==
    {w \in DictAscii : Len(w) <= limit}
    \cup {w \o AsciiPattern(9, 12) : w \in {x \in DictAscii : Len(x) <= 8 /\ Len(x) + 12 <= limit}}
    \cup {<<32>> \o AsciiPattern(9, 6), AsciiPattern(9, 6) \o <<32>>, AsciiPattern(9, limit - 1) \o <<32>>}
ContentCases ==
    UNION {{LatCase(r.c, r.keys, IF r.kind = "text" THEN CText(w) ELSE CBytes(w), "accept", "content:" \o r.name) : w \in ContentWords(r.limit)}
           : r \in {x \in SizeRows : x.kind \in {"text", "bytes"} /\ ~x.exact}}

MC_Cases == SizeCases \cup MultiByteSizeCases \cup UnboundedCases \cup IntCases \cup ParamTypeCases \cup ParamAlgCases \cup ContentCases

(***************************************************************************)
(* C12 on the model: the decoder's decision agrees with the limits above   *)
(***************************************************************************)
LimitsExact ==
    phase = "decoded" /\ case.op = "decode2" /\ "expect" \in DOMAIN case =>
        CASE case.expect = "accept" -> req.ok
          [] case.expect = "drop"   -> req.ok
          [] case.expect = "reject" -> ~req.ok /\ req.status = ST_InvalidCbor
=============================================================================
