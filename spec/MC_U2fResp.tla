------------------------------ MODULE MC_U2fResp ------------------------------
(* Scenario: CTAP1 response encoding appended to a caller's buffer: part        *)
(* lengths swept so that the total crosses every instantiated capacity at       *)
(* every part boundary, pre-filled buffers, counters at byte boundaries.  C09.  *)
EXTENDS Ctap, Gen, Lattice

CONSTANT Deep

Caps == (0..80) \cup (255..258) \cup (320..330) \cup {1024, 1100, 1500}

Reg(h, kh, cert, sig) ==
    [variant |-> "Register", header |-> h, publicKey |-> UncompressedPoint(Pattern(120, 32), Pattern(121, 32)),
     keyHandle |-> Pattern(122, kh), cert |-> Pattern(123, cert), sig |-> Pattern(124, sig)]
Auth(up, count, sig) == [variant |-> "Authenticate", presence |-> up, count |-> count, sig |-> Pattern(125, sig)]
Ver(v) == [variant |-> "Version", version |-> v]

UCase(resp, pre, cap, tag) == [op |-> "u2f_encode", tag |-> tag, resp |-> resp, pre |-> pre, cap |-> cap]

Pres == {<< >>, <<170>>, Rep(171, 7)}

\* registration responses: 1 + 65 + 1 + kh + cert + sig bytes; each part length crosses the window
RegLens == {[kh |-> kh, cert |-> c, sig |-> s] :
               kh \in {0, 1, 64, 254, 255}, c \in {0, 1, 127, 128, 255, 256, 1023, 1024}, s \in {0, 1, 70, 72}}
RegTotal(l, pre) == Len(pre) + 67 + l.kh + l.cert + l.sig

RegCases ==
    UNION {{UCase(Reg(5, l.kh, l.cert, l.sig), pre, cap, "register") :
               cap \in {n \in Caps : n >= Len(pre) /\ (RegTotal(l, pre) - n \in -2..2 \/ n \in {0, 1, 66, 67, 68, 1500})}}
           : l \in RegLens, pre \in Pres}
    \* every key-handle length (the one-byte length field)
    \cup {UCase(Reg(0, kh, 0, 0), << >>, 330, "register-kh") : kh \in (IF Deep THEN 0..255 ELSE {0, 1, 127, 128, 254, 255})}
    \* the public key is a member like the others: shorter than a point, against capacities around the total
    \cup UNION {{UCase([Reg(5, 10, 20, 30) EXCEPT !.publicKey = Pattern(126, k)], << >>, cap, "register-short-key") :
                    cap \in {n \in Caps : (62 + k) - n \in -3..70}} : k \in {0, 1, 31, 33, 64, 65}}
    \* the capacity falls inside each part in turn
    \cup {UCase(Reg(255, 10, 20, 30), << >>, cap, "register-parts") : cap \in 0..80 \cup {255}}

AuthCases ==
    {UCase(Auth(up, c, s), pre, cap, "authenticate") :
        up \in {0, 1, 255}, c \in {BN(0), BN(1), BN(255), BN(256), BN(65536), BN(16909060), BNMaxU32},
        s \in {0, 1, 70, 72}, pre \in Pres, cap \in {0, 1, 4, 5, 6, 8, 12, 13, 75, 76, 77, 78, 80, 258}}
    \cup {UCase(Auth(1, BN(66051), 40), pre, cap, "authenticate-parts") : cap \in 0..60, pre \in {<< >>, <<170>>}}

VerCases ==
    {UCase(Ver(v), pre, cap, "version") : v \in {N_U2F_V2, Rep(0, 6), Pattern(126, 6)}, pre \in Pres, cap \in 0..16}

VerCasesFitting == {c \in VerCases : Len(c.pre) <= c.cap}      \* (what the buffer holds cannot exceed its capacity)

NewCases ==
    {[op |-> "u2f_register_new", tag |-> "register-new", header |-> h, key |-> EcdhKey(s), keyHandle |-> Pattern(1, kh),
      cert |-> Pattern(2, 30), sig |-> Pattern(3, 70)] : h \in {0, 5, 255}, s \in {1, 100, 200}, kh \in {0, 64, 255}}

\* the parts are opaque: contents that LOOK like DER / CBOR / padding must be copied verbatim
\* (a DER object followed by erased-flash padding, by zeros, a chain of objects, a cut-off object)
DerPad(n, fill) == IF n >= 12 THEN <<48, 130, 0, 4, 1, 2, 3, 4>> \o Rep(fill, n - 8) ELSE Rep(48, n)
DerBig(n, fill) == IF n >= 600 THEN <<48, 130, 1, 244>> \o Rep(7, 500) \o Rep(fill, n - 504) ELSE Rep(48, n)
Opaque(n) == {DerLike(n), DerShort(n), CborLike(n), Rep(255, n), Rep(0, n), DerPad(n, 255), DerPad(n, 0), DerBig(n, 255), DerBig(n, 0)}
OpaqueCases ==
    {UCase([Reg(5, 10, 0, 70) EXCEPT !.cert = c], << >>, 1500, "register-opaque-cert") : c \in Opaque(300) \cup Opaque(20) \cup Opaque(1024)}
    \cup {UCase([Reg(5, 0, 40, 0) EXCEPT !.keyHandle = k, !.sig = g], <<170>>, 1500, "register-opaque-parts") : k \in Opaque(64), g \in Opaque(72)}
    \cup {UCase([Auth(1, BN(7), 0) EXCEPT !.sig = g], << >>, 258, "authenticate-opaque-sig") : g \in Opaque(72) \cup Opaque(8)}

MC_Cases == {c \in RegCases \cup AuthCases \cup VerCases : Len(c.pre) <= c.cap} \cup NewCases \cup OpaqueCases

(***************************************************************************)
(* C09 on the model                                                        *)
(***************************************************************************)
U2fEncode ==
    phase = "encoded" /\ case.op = "u2f_encode" =>
        LET bytes == Ctap1ResponseBytes(case.resp)
            sum   == CASE case.resp.variant = "Register" ->
                            1 + Len(case.resp.publicKey) + 1 + Len(case.resp.keyHandle) + Len(case.resp.cert) + Len(case.resp.sig)
                       [] case.resp.variant = "Authenticate" -> 1 + 4 + Len(case.resp.sig)
                       [] case.resp.variant = "Version" -> 6
        IN  /\ Len(bytes) = sum
            /\ (ret.ok <=> Len(case.pre) + sum <= case.cap)
            /\ IsPrefixOf(case.pre, ret.buf)                          \* what the buffer held is not disturbed
            /\ (ret.ok => Len(ret.buf) = Len(case.pre) + sum)
            /\ (ret.ok /\ case.resp.variant = "Register" =>
                    /\ ret.buf[Len(case.pre) + 1] = case.resp.header
                    /\ (Len(case.resp.publicKey) = 65 => ret.buf[Len(case.pre) + 2] = case.resp.publicKey[1])
                    /\ ret.buf[Len(case.pre) + 2 + Len(case.resp.publicKey)] = Len(case.resp.keyHandle))
            /\ (ret.ok /\ case.resp.variant = "Authenticate" =>
                    SubSeq(ret.buf, Len(case.pre) + 2, Len(case.pre) + 5) = BNPad(case.resp.count, 4))
=============================================================================
