------------------------------ MODULE Dispatch ------------------------------
(***************************************************************************)
(* Which authenticator method a request reaches, and how its result is     *)
(* wrapped (CTAP 2.1 section 6 command list; U2F raw messages section 3).  *)
(***************************************************************************)
EXTENDS Naturals, Sequences

Ctap2Variants == {"MakeCredential", "GetAssertion", "GetNextAssertion", "GetInfo", "ClientPin", "Reset",
                  "CredentialManagement", "Selection", "LargeBlobs", "Vendor"}
Ctap1Variants == {"Register", "Authenticate", "Version"}

HandlerOf(variant) ==
    CASE variant = "MakeCredential" -> "make_credential"
      [] variant = "GetAssertion" -> "get_assertion"
      [] variant = "GetNextAssertion" -> "get_next_assertion"
      [] variant = "GetInfo" -> "get_info"
      [] variant = "ClientPin" -> "client_pin"
      [] variant = "Reset" -> "reset"
      [] variant = "CredentialManagement" -> "credential_management"
      [] variant = "Selection" -> "selection"
      [] variant = "LargeBlobs" -> "large_blobs"
      [] variant = "Vendor" -> "vendor"
      [] variant = "Register" -> "register"
      [] variant = "Authenticate" -> "authenticate"
      [] variant = "Version" -> "version"

\* handlers whose result cannot be an error
Infallible == {"get_info", "version"}

\* the response variant a successful handler result is wrapped in
WrapOf(variant) == variant

\* an authenticator that does not implement large blobs answers InvalidCommand (0x01)
\* without reaching any handler of its own
DefaultLargeBlobsStatus == 1

=============================================================================
