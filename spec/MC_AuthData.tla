------------------------------ MODULE MC_AuthData -----------------------------
(* Scenario: authenticator data for every flag set, counters at every byte     *)
(* boundary, attested credential data shapes, a sweep of credential-id lengths *)
(* across the 676-byte capacity and the 65535 bound, every subset of extension *)
(* outputs.  C07 (and C03 for the extension map).                              *)
EXTENDS Ctap, Gen

CONSTANT Deep

Hash == Pattern(100, 32)
Counters == {BN(0), BN(1), BN(255), BN(256), BN(16909060), BNMaxU32, <<1, 0, 0, 0>>, <<255, 0, 0, 1>>}

\* a COSE public key as the authenticator would embed it (77 bytes)
Pk77 == Enc(CoseTree(CoseOfKind("p256")))
\* the public key is opaque to the library: an exact COSE key, nothing, noise -- and bytes that START
\* like a COSE key (trailing bytes, an extra parameter, a second item), or are other well-formed CBOR
PkTree == CoseTree(CoseOfKind("p256"))
PkShapes == {<< >>, Pk77, Pattern(101, 200),
             Pk77 \o <<0>>, Pk77 \o Pattern(107, 9), Pk77 \o Pk77,
             Enc(CMap(PkTree.m \o << <<CInt(-70000), CU(1)>> >>)),
             Enc(CoseTree(CoseOfKind("ed25519"))), Enc(CoseTree(CoseOfKind("ed25519"))) \o <<246>>,
             <<160>>, <<160, 160>>, Enc(CArr(<<CU(1), CU(2)>>)) \o <<255>>}
Aaguids == {<< >>, Pattern(102, 16), Pattern(102, 17)}

Acd(aaguid, idLen, pk) == [aaguid |-> aaguid, idLen |-> idLen, idSeed |-> 103, pk |-> pk]

In(flavour, flags, count, acd, ext) ==
    [flavour |-> flavour, rpIdHash |-> Hash, flags |-> flags, count |-> count, acd |-> acd, ext |-> ext]

ADCase(in, tag) == [op |-> "authdata", tag |-> tag, in |-> in]

McExtSubsets == SubsetsOf(McExtMin, McExtOptVals(F))
GaExtOutMin == [hmacSecret |-> GNone, thirdPartyPayment |-> GNone]
GaExtOutVals(n) == IF TPP \in F THEN [hmacSecret |-> Pattern(104, n), thirdPartyPayment |-> TRUE] ELSE [hmacSecret |-> Pattern(104, n)]
GaExtSubsets == UNION {SubsetsOf(GaExtOutMin, GaExtOutVals(n)) : n \in {0, 32, 64, 80}}

\* every flag set x counters, no optional parts
FlagCases ==
    {ADCase(In(fl, fs, c, GNone, GNone), "flags") : fl \in {"mc", "ga"}, fs \in FlagSets, c \in Counters}

\* frontier of the credential-id length for a given fixed part
Frontier(fixed) == {n \in ((AUTHENTICATOR_DATA_LENGTH - fixed - 3)..(AUTHENTICATOR_DATA_LENGTH - fixed + 3)) : n >= 0}
IdLens(fixed) == IF Deep THEN 0..700 ELSE (0..8) \cup Frontier(fixed) \cup {255, 256, 300}
HugeIds == {65534, 65535, 65536, 70000}

\* (the sweep of EVERY id length in the thorough tier is done for three key shapes; the others get
\* the frontier lengths in both tiers)
PkBasic == {<< >>, Pk77, Pattern(101, 200)}
IdLensFor(fixed, pk) == IF pk \in PkBasic THEN IdLens(fixed) ELSE (0..8) \cup Frontier(fixed) \cup {255, 256, 300}
AcdCases ==
    UNION {{ADCase(In("mc", FLAG_UP + FLAG_AT, BN(7), <<Acd(a, n, pk)>>, GNone), "acd") :
               n \in IdLensFor(37 + Len(a) + 2 + Len(pk), pk) \cup HugeIds} : a \in Aaguids, pk \in PkShapes}
    \cup UNION {{ADCase(In("mc", FLAG_UP + FLAG_UV + FLAG_AT + FLAG_ED, BN(9), <<Acd(Pattern(102, 16), n, Pk77)>>, <<e>>), "acd+ext") :
               n \in Frontier(37 + 16 + 2 + 77 + Len(EncTy(T_Struct("McExt"), e, F))) \cup {0, 16, 64}} : e \in McExtSubsets}

\* the two variable-length parts against each other: both short, both beyond their nominal sizes
\* (255-byte id, 256-byte key), one of each -- wherever the total still fits and where it just does not
GridCases ==
    {ADCase(In("mc", FLAG_UP + FLAG_AT, BN(11), <<Acd(Pattern(102, 16), n, Pattern(108, k))>>, GNone), "acd-grid") :
        n \in {0, 1, 16, 64, 254, 255, 256, 257, 300, 310}, k \in {0, 1, 77, 255, 256, 257, 300, 310}}

ExtCases ==
    {ADCase(In("mc", FLAG_UP + FLAG_ED, BN(1), GNone, <<e>>), "mc-ext") : e \in McExtSubsets}
    \cup {ADCase(In("ga", FLAG_UP + FLAG_UV + FLAG_ED, BN(2), GNone, <<e>>), "ga-ext") : e \in GaExtSubsets}

\* a caller-defined extension-output type (the authenticator-data type is generic in it) whose
\* encoding runs from a few bytes up to and past everything the 676-byte buffer can hold
CallerLens == IF Deep THEN 0..400 ELSE {0, 1, 23, 24, 80, 100, 200, 255, 256, 400} \cup (110..130) \cup (207..215)
CallerExtCases ==
    {ADCase(In("custom", FLAG_UP + FLAG_ED, BN(3), GNone, <<[credBlob |-> cb, hmacSecret |-> <<Pattern(105, n)>>]>>), "caller-ext") :
        cb \in {GNone, << << >> >>, <<Pattern(106, 400)>>}, n \in CallerLens}
    \cup {ADCase(In("custom", FLAG_UP + FLAG_ED, BN(3), GNone, <<[credBlob |-> <<Pattern(106, n)>>, hmacSecret |-> GNone]>>), "caller-ext") :
        n \in CallerLens}
    \cup {ADCase(In("custom", FLAG_UP, BN(3), GNone, GNone), "caller-ext")}

\* ... and one with many members: the first n of 24 present
WideVal(n) == [nm \in {WideName(i) : i \in 1..24} |-> IF \E i \in 1..n : WideName(i) = nm THEN <<(CHOOSE i \in 1..n : WideName(i) = nm) + 20>> ELSE GNone]
CallerWideCases ==
    {ADCase(In("wide", FLAG_UP + FLAG_ED, BN(4), GNone, <<WideVal(n)>>), "caller-wide") : n \in {0, 1, 2, 14, 15, 16, 17, 22, 23, 24}}

\* a caller-defined attested-credential-data type (the trait is public): same layout, written by the
\* caller's own implementation of the one required method
RawAcdCases ==
    {ADCase(In("raw", FLAG_UP + FLAG_AT, BN(12), <<Acd(Pattern(102, 16), n, pk)>>, e), "caller-acd") :
        n \in {0, 16, 255, 300, 544, 545, 546}, pk \in {Pk77, Pattern(101, 200)}, e \in {GNone, <<McExtMin>>}}

MC_Cases == RawAcdCases \cup FlagCases \cup AcdCases \cup GridCases \cup ExtCases \cup CallerExtCases \cup CallerWideCases

(***************************************************************************)
(* C07 on the model: the independent inverse recovers every input          *)
(***************************************************************************)
AuthDataLayout ==
    phase = "encoded" /\ case.op = "authdata" =>
        LET in == case.in IN
        /\ (ret.ok <=> (AuthDataLen(in, F) <= 676 /\ (in.acd = << >> \/ in.acd[1].idLen <= 65535)))
        /\ (~ret.ok => ret.bytes = << >>)
        /\ (ret.ok => Len(ret.bytes) = AuthDataLen(in, F))
        /\ (ret.ok /\ (in.acd = << >> \/ (Len(in.acd[1].aaguid) = 16 /\ in.acd[1].pk = Pk77)) =>
              LET pb == ParseBack(ret.bytes, in.acd # << >>, in.ext # << >>) IN
              /\ pb.rpIdHash = in.rpIdHash /\ pb.flags = in.flags /\ pb.count = in.count
              /\ (in.acd # << >> =>
                    /\ pb.acd[1].aaguid = in.acd[1].aaguid
                    /\ pb.acd[1].id = Pattern(in.acd[1].idSeed, in.acd[1].idLen)
                    /\ pb.acd[1].pk = in.acd[1].pk)
              /\ (in.ext = << >> => pb.extBytes = << >>)
              /\ (in.ext # << >> => IsCanonical(pb.extBytes)))
=============================================================================
