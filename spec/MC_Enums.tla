------------------------------- MODULE MC_Enums -------------------------------
(* Scenario: every identifier table -- valid spellings, every single-character *)
(* edit, case changes, prefixes, one-character extensions; all 256 numbers and *)
(* the threshold integers.  C18.  Complete on both sides.                      *)
EXTENDS Ctap, Gen, Dict

Upper(ch) == IF ch >= 97 /\ ch <= 122 THEN ch - 32 ELSE ch
Lower(ch) == IF ch >= 65 /\ ch <= 90 THEN ch + 32 ELSE ch
Flip(ch)  == IF ch >= 97 /\ ch <= 122 THEN ch - 32 ELSE IF ch >= 65 /\ ch <= 90 THEN ch + 32 ELSE ch
SubstChars == {120, 95, 45, 48}      \* x _ - 0

Edits(w) ==
    {w, << >>, [i \in 1..Len(w) |-> Upper(w[i])], [i \in 1..Len(w) |-> Lower(w[i])]}
    \cup {SubSeq(w, 1, i - 1) \o SubSeq(w, i + 1, Len(w)) : i \in 1..Len(w)}                  \* deletions
    \cup {[w EXCEPT ![i] = Flip(w[i])] : i \in 1..Len(w)}                                        \* case flips
    \cup {[w EXCEPT ![i] = ch] : i \in 1..Len(w), ch \in SubstChars}                             \* substitutions
    \cup {SubSeq(w, 1, i) \o <<ch>> \o SubSeq(w, i + 1, Len(w)) : i \in 0..Len(w), ch \in SubstChars}  \* insertions
    \cup {SubSeq(w, 1, i) : i \in 0..Len(w)}                                                     \* prefixes
    \cup {w \o <<ch>> : ch \in {0, 32, 49, 95, 97}}                                              \* extensions

StrTables == {"Version", "Extension", "Transport", "Format"}
\* identifiers that exist in the FIDO / WebAuthn / IANA registries but are NOT in this library's
\* tables (a table that silently grows is caught here)
RegistryOthers == {N_fidoU2f, N_tpm, N_androidKey, N_androidSafetynet, N_apple, N_ble, N_internal, N_hybrid, N_smartCard,
                   N_FIDO_2_2, N_U2F_V1, N_credBlob, N_minPinLength, N_largeBlob, N_hmacSecretMc, N_prf, N_credProps}
\* ... and every word of the source's own dictionary (a second spelling or an alias that a look-up
\* accepts is named in the source)
AllNamesOfAllTables == UNION {EnumStrTable(t) : t \in StrTables} \cup RegistryOthers \cup {w \in DictTexts : IsUtf8(w)}

\* through TryFrom<&str> / Into<&str> ...
StrCases ==
    UNION {{[op |-> "enum_str", tag |-> "enum-str", table |-> t, s |-> cand] :
               cand \in UNION {Edits(w) : w \in EnumStrTable(t)} \cup AllNamesOfAllTables} : t \in StrTables}
\* ... and through the CBOR decoder
StrDecCases ==
    UNION {{TypeDecCase(t, Enc(CText(cand)), "enum-str-cbor") :
               cand \in UNION {Edits(w) : w \in EnumStrTable(t)} \cup AllNamesOfAllTables} : t \in StrTables}
    \cup UNION {{TypeDecCase(t, Enc(v), "enum-str-cbor-type") : v \in {CU(1), CBytes(N_usb), CNull, CArr(<<CText(N_usb)>>)}} : t \in StrTables}

U8Cases ==
    {[op |-> "enum_u8", tag |-> "enum-u8", table |-> t, n |-> n] : t \in {"CredProtect", "ControlByte"}, n \in 0..255}

WideWithValidLowByte == {CUInt(<<1, n>>) : n \in {1, 2, 3, 7, 9}} \cup {CUInt(<<1, 0, n>>) : n \in {1, 6}}
                        \cup {CUInt(<<1, 0, 0, 0, n>>) : n \in {1, 9}} \cup {CUInt(<<1, 0, 0, 0, 0, 0, 0, 0, 3>>)} \cup {CNInt(BN(0)), CNInt(BN(2))}
BigInts == WideWithValidLowByte \cup {CUInt(<<1, 0>>), CUInt(<<255, 255>>), CUInt(<<1, 0, 0>>), CUInt(BNMaxU32), CUInt(BNSucc(BNMaxU32)),
            CUInt(BNMaxU64), CNInt(BN(0)), CWide(CU(1), 1), CWide(CU(1), 2), CText(<<49>>), CBool(TRUE)}
U8DecCases ==
    UNION {{TypeDecCase(t, Enc(CU(n)), "enum-u8-cbor") : n \in 0..255}
           \cup {TypeDecCase(t, Enc(v), "enum-u8-cbor-big") : v \in BigInts} : t \in {"PinSub", "CmSub", "CredProtect"}}

\* sub-commands inside full requests (all 256 values)
SubCommandCases ==
    {RawCase(<<6>> \o Enc(CMap(<< <<CU(1), CU(1)>>, <<CU(2), v>> >>)), "pin-subcommand-wide") : v \in WideWithValidLowByte}
    \cup {RawCase(<<10>> \o Enc(CMap(<< <<CU(1), v>> >>)), "cm-subcommand-wide") : v \in WideWithValidLowByte}
    \cup {RawCase(<<6>> \o Enc(CMap(<< <<CU(1), CU(1)>>, <<CU(2), CU(n)>> >>)), "pin-subcommand-byte") : n \in 0..255}
    \cup {RawCase(<<10>> \o Enc(CMap(<< <<CU(1), CU(n)>> >>)), "cm-subcommand-byte") : n \in 0..255}
    \* the prototype command byte shares the table
    \cup {RawCase(<<65>> \o Enc(CMap(<< <<CU(1), CU(n)>> >>)), "cm-subcommand-byte-0x41") : n \in 0..255}
    \cup {RawCase(<<65>> \o Enc(CMap(<< <<CU(1), v>> >>)), "cm-subcommand-wide-0x41") : v \in WideWithValidLowByte}

PermCases == {[op |-> "permissions", tag |-> "permissions", n |-> n] : n \in 0..255}
StatusCases == {[op |-> "status_codes", tag |-> "status-codes"], [op |-> "defaults", tag |-> "defaults"]}

\* enumerations are also emitted with exactly their spelling / number
EncCases ==
    UNION {{TypeEncCase(t, w, "enum-str-encode") : w \in EnumStrTable(t)} : t \in StrTables}
    \cup {TypeEncCase("CredProtect", n, "enum-u8-encode") : n \in CredProtectPolicies}

MC_Cases == StrCases \cup StrDecCases \cup U8Cases \cup U8DecCases \cup SubCommandCases \cup PermCases
            \cup StatusCases \cup EncCases

(***************************************************************************)
(* C18 on the tables themselves: injective both ways                       *)
(***************************************************************************)
ASSUME TablesDisjointSpellings ==
    \A t \in StrTables : \A a, b \in EnumStrTable(t) : a = b \/ a # b       \* sets: spellings are distinct by construction
ASSUME StatusCodesInjective ==
    \A a, b \in DOMAIN StatusCode : StatusCode[a] = StatusCode[b] => a = b
ASSUME PermissionBitsDistinct ==
    /\ \A a, b \in DOMAIN PermissionBits : PermissionBits[a] = PermissionBits[b] => a = b
    /\ PermissionBits.mc + PermissionBits.ga + PermissionBits.cm + PermissionBits.be + PermissionBits.lbw + PermissionBits.acfg = PermissionMask

IdentifierTables ==
    /\ (phase = "decoded" /\ case.op = "enum_str" => (req.ok <=> case.s \in EnumStrTable(case.table)))
    /\ (phase = "decoded" /\ case.op = "enum_u8" => (req.ok <=> case.n \in EnumU8Table(case.table)))
    /\ (phase = "decoded" /\ case.op = "decode_type" /\ case.tag = "enum-str-cbor" =>
            (req.ok <=> ParseItem(case.bytes, 1).v.b \in EnumStrTable(case.type)))
=============================================================================
