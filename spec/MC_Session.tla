------------------------------ MODULE MC_Session ------------------------------
(* Scenario: complete exchanges  host -> decode -> dispatch -> handler -> encode *)
(* into the transport buffer, and HISTORIES of two exchanges over the reused    *)
(* buffer.  The handler's answer is scripted (success with a fixed value per    *)
(* handler, or an error).  Serves C10 / C17 / C01 together and the liveness     *)
(* property ExchangeTerminates.                                                 *)
EXTENDS Ctap, Gen

\* the value each handler of the harness's mock authenticator answers with
Canned(kind) ==
    CASE kind = "ClientPin" -> [CpRespMin EXCEPT !.pinRetries = <<7>>]
      [] kind = "CredentialManagement" -> [CmRespMin EXCEPT !.totalRPs = <<BN(3)>>]
      [] kind = "LargeBlobs" -> [config |-> << << >> >>]
      [] kind = "GetInfo" ->
            [GiMin EXCEPT !.versions = << >>, !.aaguid = Rep(0, 16),
                          !.options = <<[GiOptMin EXCEPT !.rk = FALSE, !.up = TRUE]>>, !.maxMsgSize = <<BN(1234)>>]
      [] kind = "MakeCredential" -> [McRespMin EXCEPT !.fmt = N_packed, !.authData = <<1, 2, 3>>]
      [] kind = "GetAssertion" ->
            [GaRespMin EXCEPT !.credential = [id |-> <<1>>, type |-> N_publicKey], !.authData = <<4, 5, 6, 1>>, !.signature = <<7, 8, 9>>]
      [] kind = "GetNextAssertion" ->
            [GaRespMin EXCEPT !.credential = [id |-> <<2>>, type |-> N_publicKey], !.authData = <<4, 5, 6, 2>>, !.signature = <<7, 8, 9>>]
      [] OTHER -> << >>

GoodWire(c) == IF CommandTable[c].kind = "params" THEN HostEncode(c, ReqFull(c, F), F) ELSE <<c>>

\* what the host sends: well-formed requests of every command, and rejected ones of each status
Wires ==
    {[wire |-> GoodWire(c), kind |-> CommandTable[c].name] : c \in {1, 2, 4, 6, 7, 8, 10, 11, 12, 65, 66, 127}}
    \cup {[wire |-> w, kind |-> ""] :
            w \in {<< >>, <<9>>, <<3, 160>>, <<6, 161, 1, 1>>, SubSeq(GoodWire(6), 1, 5), <<2, 160>>, <<12, 161, 3>>}}

XCase(w, script, hasLb, cap) ==
    [op |-> "exchange", tag |-> "exchange", wire |-> w.wire, script |-> script, hasLb |-> hasLb,
     respv |-> Canned(w.kind), cap |-> cap]

Scripts == {[ok |-> TRUE, err |-> 0], [ok |-> FALSE, err |-> 39]}

MC_Cases == {XCase(w, s, lb, cap) : w \in Wires, s \in Scripts, lb \in BOOLEAN, cap \in {1, 64, 7609}}

\* a thinner set for the two-exchange histories (|set|^2 behaviours)
MC_HistCases ==
    {XCase(w, s, TRUE, cap) :
        w \in {x \in Wires : x.kind \in {"MakeCredential", "ClientPin", "Reset", "GetInfo", "LargeBlobs", ""}},
        s \in Scripts, cap \in {64, 7609}}

\* long random sessions (tlc -simulate): one transport buffer of 256 bytes, any request, any outcome
MC_SimCases == {XCase(w, s, lb, 256) : w \in Wires, s \in Scripts, lb \in BOOLEAN}

(***************************************************************************)
(* Exchange-level properties                                               *)
(***************************************************************************)
\* C10 in context: a rejected request reaches no handler; an accepted one exactly its own
ExchangeDispatch ==
    phase \in {"returned", "encoded"} /\ case.op = "exchange" =>
        IF ~req.ok THEN calls = << >>
        ELSE IF req.cmd = "LargeBlobs" /\ ~case.hasLb THEN calls = << >>
        ELSE calls = <<HandlerOf(req.cmd)>>

\* C17 / C02 in context: what the host reads back is the complete response of the SAME command,
\* or a single status byte -- whatever the previous exchange left in the buffer
ExchangeAnswer ==
    phase = "encoded" /\ case.op = "exchange" =>
        IF ~req.ok THEN buf = <<req.status>>
        ELSE IF ~ret.ok THEN buf = <<ret.err>>
        ELSE LET full == EncodeResponse([kind |-> req.cmd, v |-> case.respv], F) IN
             IF Len(full) <= case.cap THEN buf = full ELSE buf = <<ST_Other>>
=============================================================================
