-------------------------------- MODULE U2f ---------------------------------
(***************************************************************************)
(* CTAP1 / U2F: ISO 7816-4 command APDU framing (section 5.1, the seven    *)
(* cases 1, 2S, 3S, 4S, 2E, 3E, 4E), the request decision list and the     *)
(* response layouts of "FIDO U2F Raw Message Formats" v1.2 sections 3-5.   *)
(***************************************************************************)
EXTENDS ByteSeq

SW_ClassNotSupported        == 28160   \* 0x6E00
SW_InstructionNotSupported  == 27904   \* 0x6D00
SW_IncorrectDataParameter   == 27264   \* 0x6A80

\* body = everything after CLA INS P1 P2
\* [ok |-> TRUE, data, extended] or [ok |-> FALSE]
ParseLengths(body) ==
    LET l  == Len(body)
        b1 == body[1]
        lc == body[2] * 256 + body[3]
    IN  IF l = 0 THEN [ok |-> TRUE, data |-> << >>, extended |-> FALSE]                  \* case 1
        ELSE IF l = 1 THEN [ok |-> TRUE, data |-> << >>, extended |-> FALSE]             \* case 2S
        ELSE IF b1 # 0 /\ l = 1 + b1 THEN [ok |-> TRUE, data |-> SubSeq(body, 2, l), extended |-> FALSE]      \* 3S
        ELSE IF b1 # 0 /\ l = 2 + b1 THEN [ok |-> TRUE, data |-> SubSeq(body, 2, l - 1), extended |-> FALSE]  \* 4S
        ELSE IF b1 # 0 \/ l < 3 THEN [ok |-> FALSE, data |-> << >>, extended |-> FALSE]
        ELSE IF l = 3 THEN [ok |-> TRUE, data |-> << >>, extended |-> TRUE]              \* case 2E
        ELSE IF l = 3 + lc THEN [ok |-> TRUE, data |-> SubSeq(body, 4, l), extended |-> TRUE]                 \* 3E
        ELSE IF l = 5 + lc THEN [ok |-> TRUE, data |-> SubSeq(body, 4, l - 2), extended |-> TRUE]             \* 4E
        ELSE [ok |-> FALSE, data |-> << >>, extended |-> FALSE]

\* [ok |-> TRUE, cla, ins, p1, p2, data] or [ok |-> FALSE]
Framing(apdu) ==
    IF Len(apdu) < 4 \/ apdu[1] = 255 THEN [ok |-> FALSE]
    ELSE LET pl == ParseLengths(SubSeq(apdu, 5, Len(apdu))) IN
         IF ~pl.ok THEN [ok |-> FALSE]
         ELSE [ok |-> TRUE, cla |-> apdu[1], ins |-> apdu[2], p1 |-> apdu[3], p2 |-> apdu[4], data |-> pl.data]

\* building APDUs (host side); enc \in {"short", "shortLe", "ext", "extLe"}
CanEncode(n, enc) == IF enc \in {"short", "shortLe"} THEN n >= 1 /\ n <= 255 ELSE n >= 1 /\ n <= 65535
BuildApdu(cla, ins, p1, p2, data, enc) ==
    LET n == Len(data) IN
    <<cla, ins, p1, p2>> \o
    (IF n = 0 THEN (CASE enc = "short" -> << >> [] enc = "shortLe" -> <<0>>
                      [] enc = "ext" -> << >> [] enc = "extLe" -> <<0, 0, 0>>)
     ELSE CASE enc = "short"   -> <<n>> \o data
            [] enc = "shortLe" -> <<n>> \o data \o <<0>>
            [] enc = "ext"     -> <<0, n \div 256, n % 256>> \o data
            [] enc = "extLe"   -> <<0, n \div 256, n % 256>> \o data \o <<0, 0>>)

NoReq == [variant |-> "", control |-> 0, challenge |-> << >>, appId |-> << >>, keyHandle |-> << >>]

\* The decision list of the raw message format.  Result:
\*   [ok |-> TRUE, sw |-> 0, req]   or   [ok |-> FALSE, sw, req |-> NoReq]
Ctap1Request(cla, ins, p1, data) ==
    LET err(sw) == [ok |-> FALSE, sw |-> sw, req |-> NoReq] IN
    IF cla # 0 THEN err(SW_ClassNotSupported)
    ELSE IF ins = 3 THEN [ok |-> TRUE, sw |-> 0, req |-> [NoReq EXCEPT !.variant = "Version"]]
    ELSE IF ins = 1 THEN
        (IF Len(data) # 64 THEN err(SW_IncorrectDataParameter)
         ELSE [ok |-> TRUE, sw |-> 0,
               req |-> [variant |-> "Register", control |-> 0, challenge |-> SubSeq(data, 1, 32),
                        appId |-> SubSeq(data, 33, 64), keyHandle |-> << >>]])
    ELSE IF ins = 2 THEN
        (IF p1 \notin {3, 7, 8} THEN err(SW_IncorrectDataParameter)
         ELSE IF Len(data) < 65 THEN err(SW_IncorrectDataParameter)
         ELSE IF Len(data) # 65 + data[65] THEN err(SW_IncorrectDataParameter)
         ELSE [ok |-> TRUE, sw |-> 0,
               req |-> [variant |-> "Authenticate", control |-> p1, challenge |-> SubSeq(data, 1, 32),
                        appId |-> SubSeq(data, 33, 64), keyHandle |-> SubSeq(data, 66, Len(data))]])
    ELSE err(SW_InstructionNotSupported)

\* framing + decision list: [framed |-> BOOLEAN, ok, sw, req]
ParseApdu(apdu) ==
    LET f == Framing(apdu) IN
    IF ~f.ok THEN [framed |-> FALSE, ok |-> FALSE, sw |-> 0, req |-> NoReq]
    ELSE LET r == Ctap1Request(f.cla, f.ins, f.p1, f.data) IN
         [framed |-> TRUE, ok |-> r.ok, sw |-> r.sw, req |-> r.req]

(***************************************************************************)
(* Responses.                                                              *)
(*   [variant |-> "Register", header, publicKey(65), keyHandle, cert, sig] *)
(*   [variant |-> "Authenticate", presence, count: BigNat, sig]            *)
(*   [variant |-> "Version", version(6)]                                   *)
(***************************************************************************)
Ctap1ResponseBytes(r) ==
    CASE r.variant = "Register" ->
            <<r.header>> \o r.publicKey \o <<Len(r.keyHandle)>> \o r.keyHandle \o r.cert \o r.sig
      [] r.variant = "Authenticate" -> <<r.presence>> \o BNPad(r.count, 4) \o r.sig
      [] r.variant = "Version" -> r.version

\* 0x04 || x || y
UncompressedPoint(x, y) == <<4>> \o x \o y

\* appending to the caller's buffer of capacity S
\*   [ok |-> TRUE, buf]  or  [ok |-> FALSE, keep]  (on failure only the first keep bytes are specified)
AppendU2f(buf, bytes, S) ==
    IF Len(buf) + Len(bytes) <= S THEN [ok |-> TRUE, buf |-> buf \o bytes, keep |-> Len(buf) + Len(bytes)]
    ELSE [ok |-> FALSE, buf |-> buf, keep |-> Len(buf)]

=============================================================================
