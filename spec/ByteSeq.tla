------------------------------ MODULE ByteSeq ------------------------------
(***************************************************************************)
(* Byte strings and big-endian naturals ("BigNat").                        *)
(*                                                                         *)
(* TLC integers are 32-bit; CBOR arguments are up to 64-bit.  Every        *)
(* integer that can exceed 2^31-1 is therefore carried as a BigNat: a      *)
(* big-endian sequence of bytes WITHOUT leading zero bytes (zero is <<>>). *)
(***************************************************************************)
EXTENDS Naturals, Integers, Sequences

Byte == 0..255

IsBytes(b) == \A i \in 1..Len(b) : b[i] \in Byte

\* b[from..to] with clamping (from >= 1)
Slice(b, from, to) == SubSeq(b, from, to)

\* n copies of x
Rep(x, n) == [i \in 1..n |-> x]

\* a deterministic non-constant filler of length n (so that swapped or
\* shifted members are visible): seed + index modulo 251
Pattern(seed, n) == [i \in 1..n |-> (seed + i * 7) % 251]

\* printable-ASCII filler (valid UTF-8, one byte per character)
AsciiPattern(seed, n) == [i \in 1..n |-> 97 + ((seed + i) % 26)]

\* lexicographic comparison of byte sequences (shorter prefix is smaller)
RECURSIVE LexLTFrom(_, _, _)
LexLTFrom(a, b, i) ==
    IF i > Len(a) THEN i <= Len(b)
    ELSE IF i > Len(b) THEN FALSE
    ELSE IF a[i] < b[i] THEN TRUE
    ELSE IF a[i] > b[i] THEN FALSE
    ELSE LexLTFrom(a, b, i + 1)
LexLT(a, b) == LexLTFrom(a, b, 1)

IsPrefixOf(a, b) == Len(a) <= Len(b) /\ \A i \in 1..Len(a) : a[i] = b[i]

(***************************************************************************)
(* BigNat                                                                  *)
(***************************************************************************)
RECURSIVE FirstNonZero(_, _)
FirstNonZero(b, i) == IF i > Len(b) THEN i ELSE IF b[i] # 0 THEN i ELSE FirstNonZero(b, i + 1)

\* strip leading zero bytes
BNNorm(b) == LET k == FirstNonZero(b, 1) IN SubSeq(b, k, Len(b))

IsBigNat(b) == IsBytes(b) /\ (Len(b) = 0 \/ b[1] # 0)

BNZero == << >>

BNLT(a, b) == \/ Len(a) < Len(b)
              \/ Len(a) = Len(b) /\ LexLT(a, b)
BNLE(a, b) == a = b \/ BNLT(a, b)

\* Nat (< 2^31) -> BigNat
RECURSIVE BNFromNatAcc(_, _)
BNFromNatAcc(n, acc) == IF n = 0 THEN acc ELSE BNFromNatAcc(n \div 256, <<n % 256>> \o acc)
BN(n) == BNFromNatAcc(n, << >>)

\* BigNat -> Nat; only defined when it fits into a TLC integer
BNFitsInt(b) == Len(b) <= 3 \/ (Len(b) = 4 /\ b[1] < 128)
RECURSIVE BNToNatAcc(_, _, _)
BNToNatAcc(b, i, acc) == IF i > Len(b) THEN acc ELSE BNToNatAcc(b, i + 1, acc * 256 + b[i])
BNToNat(b) == BNToNatAcc(b, 1, 0)

\* maxima of the unsigned integer types as BigNats
BNMaxU8  == <<255>>
BNMaxU16 == <<255, 255>>
BNMaxU32 == <<255, 255, 255, 255>>
BNMaxU64 == <<255, 255, 255, 255, 255, 255, 255, 255>>
BNMaxI32 == <<127, 255, 255, 255>>            \* 2^31 - 1

\* big-endian fixed width rendering (width >= Len(b))
BNPad(b, width) == Rep(0, width - Len(b)) \o b

\* big-endian fixed-width rendering of a small Nat
BE(n, width) == BNPad(BN(n), width)

\* successor (used by boundary lattices: max + 1)
RECURSIVE BNSuccAt(_, _)
BNSuccAt(b, i) ==
    IF i = 0 THEN <<1>> \o b
    ELSE IF b[i] < 255 THEN [b EXCEPT ![i] = b[i] + 1]
    ELSE BNSuccAt([b EXCEPT ![i] = 0], i - 1)
BNSucc(b) == BNSuccAt(b, Len(b))

=============================================================================
