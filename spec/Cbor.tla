-------------------------------- MODULE Cbor --------------------------------
(***************************************************************************)
(* The CBOR data model (RFC 8949 section 3), its canonical encoding, a     *)
(* generic parser, and the "CTAP2 canonical CBOR encoding form" predicate  *)
(* (CTAP 2.1 section 8; RFC 8949 section 4.2.3 length-first ordering).     *)
(*                                                                         *)
(* Values are records with a kind field k.  Integers are BigNats.  Maps    *)
(* are SEQUENCES of <<key, value>> pairs because wire order matters.       *)
(***************************************************************************)
EXTENDS ByteSeq, TLC

CUInt(bn)    == [k |-> "uint",  n |-> bn]
CNInt(bn)    == [k |-> "nint",  n |-> bn]          \* the integer -1 - n
CBytes(b)    == [k |-> "bytes", b |-> b]
CText(b)     == [k |-> "text",  b |-> b]
CArr(a)      == [k |-> "array", a |-> a]
CMap(m)      == [k |-> "map",   m |-> m]
CBool(v)     == [k |-> "bool",  v |-> v]
CNull        == [k |-> "null"]
CUndef       == [k |-> "undef"]
CSimple(n)   == [k |-> "simple", s |-> n]           \* n \in 0..19 \cup 32..255
CFloat(w, b) == [k |-> "float", w |-> w, b |-> b]   \* w \in {2,4,8}, b the raw bytes
CTag(bn, v)  == [k |-> "tag",   n |-> bn, v |-> v]

\* Non-canonical forms, used only by fault injection and by the parser to
\* report what it saw:
\*   CWide(v, w): v's head written with a w-byte argument (w \in {1,2,4,8})
\*   CIndef(v)  : v (bytes/text/array/map) written with indefinite length
\*   CRaw(b)    : the bytes b spliced in verbatim
CWide(v, w)  == [k |-> "wide",  v |-> v, w |-> w]
CIndef(v)    == [k |-> "indef", v |-> v]
CRaw(b)      == [k |-> "raw",   b |-> b]

CInt(i) == IF i >= 0 THEN CUInt(BN(i)) ELSE CNInt(BN(-1 - i))   \* small TLC integers
CU(n)   == CUInt(BN(n))

(***************************************************************************)
(* Heads                                                                   *)
(***************************************************************************)
\* shortest-form head for major type mt with argument bn
CHead(mt, bn) ==
    LET l == Len(bn) IN
    IF l = 0 THEN <<mt * 32>>
    ELSE IF l = 1 /\ bn[1] <= 23 THEN <<mt * 32 + bn[1]>>
    ELSE IF l = 1 THEN <<mt * 32 + 24>> \o bn
    ELSE IF l = 2 THEN <<mt * 32 + 25>> \o bn
    ELSE IF l <= 4 THEN <<mt * 32 + 26>> \o BNPad(bn, 4)
    ELSE <<mt * 32 + 27>> \o BNPad(bn, 8)

\* head with a forced argument width w \in {1,2,4,8} (must be >= Len(bn))
HeadW(mt, bn, w) ==
    LET ai == CASE w = 1 -> 24 [] w = 2 -> 25 [] w = 4 -> 26 [] w = 8 -> 27
    IN  <<mt * 32 + ai>> \o BNPad(bn, w)

\* minimal argument width in bytes: 0 means "in the initial byte"
MinWidth(bn) ==
    LET l == Len(bn) IN
    IF l = 0 \/ (l = 1 /\ bn[1] <= 23) THEN 0
    ELSE IF l = 1 THEN 1 ELSE IF l = 2 THEN 2 ELSE IF l <= 4 THEN 4 ELSE 8

(***************************************************************************)
(* Encoder.  Enc(v) is canonical whenever v contains no wide/indef/raw     *)
(* node and its maps are listed in canonical key order.                    *)
(***************************************************************************)
MajorOf(v) ==
    CASE v.k = "uint" -> 0 [] v.k = "nint" -> 1 [] v.k = "bytes" -> 2 [] v.k = "text" -> 3
      [] v.k = "array" -> 4 [] v.k = "map" -> 5 [] v.k = "tag" -> 6 [] OTHER -> 7

\* the head argument of a value
ArgOf(v) ==
    CASE v.k = "uint" -> v.n [] v.k = "nint" -> v.n
      [] v.k = "bytes" -> BN(Len(v.b)) [] v.k = "text" -> BN(Len(v.b))
      [] v.k = "array" -> BN(Len(v.a)) [] v.k = "map" -> BN(Len(v.m))
      [] v.k = "tag" -> v.n
      [] v.k = "simple" -> BN(v.s)

RECURSIVE Enc(_), EncAll(_, _), EncPairs(_, _), EncBody(_)

\* everything after the head
EncBody(v) ==
    CASE v.k = "bytes" -> v.b
      [] v.k = "text"  -> v.b
      [] v.k = "array" -> EncAll(v.a, 1)
      [] v.k = "map"   -> EncPairs(v.m, 1)
      [] v.k = "tag"   -> Enc(v.v)
      [] OTHER -> << >>

EncAll(a, i)   == IF i > Len(a) THEN << >> ELSE Enc(a[i]) \o EncAll(a, i + 1)
EncPairs(m, i) == IF i > Len(m) THEN << >> ELSE Enc(m[i][1]) \o Enc(m[i][2]) \o EncPairs(m, i + 1)

Enc(v) ==
    CASE v.k = "bool"   -> <<IF v.v THEN 245 ELSE 244>>
      [] v.k = "null"   -> <<246>>
      [] v.k = "undef"  -> <<247>>
      [] v.k = "simple" -> (IF v.s <= 23 THEN <<224 + v.s>> ELSE <<248, v.s>>)
      [] v.k = "float"  -> <<(CASE v.w = 2 -> 249 [] v.w = 4 -> 250 [] v.w = 8 -> 251)>> \o v.b
      [] v.k = "raw"    -> v.b
      [] v.k = "wide"   -> HeadW(MajorOf(v.v), ArgOf(v.v), v.w) \o EncBody(v.v)
      [] v.k = "indef"  ->
            (IF v.v.k \in {"bytes", "text"}
             THEN <<MajorOf(v.v) * 32 + 31>> \o Enc(v.v) \o <<255>>     \* one definite chunk
             ELSE <<MajorOf(v.v) * 32 + 31>> \o EncBody(v.v) \o <<255>>)
      [] OTHER          -> CHead(MajorOf(v), ArgOf(v)) \o EncBody(v)

(***************************************************************************)
(* Generic parser (index based: p is the 1-based position of the next      *)
(* byte).  Result:                                                         *)
(*   [ok |-> TRUE, v, p, canon]   canon = every head shortest-form, every  *)
(*        length definite, no tag / float / undefined / other simple value *)
(*   [ok |-> FALSE, why]          why \in {"eof", "reserved", "break"}     *)
(***************************************************************************)
PFail(why) == [ok |-> FALSE, why |-> why]

\* head at p: [ok, mt, ai, arg, p, min]
HeadAt(b, p) ==
    IF p > Len(b) THEN PFail("eof")
    ELSE LET ib == b[p]
             mt == ib \div 32
             ai == ib % 32
             w  == CASE ai = 24 -> 1 [] ai = 25 -> 2 [] ai = 26 -> 4 [] ai = 27 -> 8 [] OTHER -> 0
         IN  IF ai <= 23 THEN [ok |-> TRUE, mt |-> mt, ai |-> ai, arg |-> BN(ai), p |-> p + 1, min |-> TRUE]
             ELSE IF ai >= 28 /\ ai <= 30 THEN PFail("reserved")
             ELSE IF ai = 31 THEN [ok |-> TRUE, mt |-> mt, ai |-> 31, arg |-> << >>, p |-> p + 1, min |-> TRUE]
             ELSE IF p + w > Len(b) THEN PFail("eof")
             ELSE LET raw == SubSeq(b, p + 1, p + w)
                      arg == BNNorm(raw)
                  IN  [ok |-> TRUE, mt |-> mt, ai |-> ai, arg |-> arg, p |-> p + 1 + w,
                       min |-> (MinWidth(arg) = w)]

RECURSIVE ParseItem(_, _), ParseElems(_, _, _, _, _), ParsePairs(_, _, _, _, _),
          ParseIndefElems(_, _, _, _), ParseIndefPairs(_, _, _, _), ParseChunks(_, _, _, _, _)

ParseElems(b, p, n, acc, canon) ==
    IF n = 0 THEN [ok |-> TRUE, a |-> acc, p |-> p, canon |-> canon]
    ELSE LET r == ParseItem(b, p) IN
         IF ~r.ok THEN r ELSE ParseElems(b, r.p, n - 1, Append(acc, r.v), canon /\ r.canon)

ParsePairs(b, p, n, acc, canon) ==
    IF n = 0 THEN [ok |-> TRUE, a |-> acc, p |-> p, canon |-> canon]
    ELSE LET rk == ParseItem(b, p) IN
         IF ~rk.ok THEN rk
         ELSE LET rv == ParseItem(b, rk.p) IN
              IF ~rv.ok THEN rv
              ELSE ParsePairs(b, rv.p, n - 1, Append(acc, <<rk.v, rv.v>>), canon /\ rk.canon /\ rv.canon)

ParseIndefElems(b, p, acc, dummy) ==
    IF p > Len(b) THEN PFail("eof")
    ELSE IF b[p] = 255 THEN [ok |-> TRUE, a |-> acc, p |-> p + 1, canon |-> FALSE]
    ELSE LET r == ParseItem(b, p) IN
         IF ~r.ok THEN r ELSE ParseIndefElems(b, r.p, Append(acc, r.v), dummy)

ParseIndefPairs(b, p, acc, dummy) ==
    IF p > Len(b) THEN PFail("eof")
    ELSE IF b[p] = 255 THEN [ok |-> TRUE, a |-> acc, p |-> p + 1, canon |-> FALSE]
    ELSE LET rk == ParseItem(b, p) IN
         IF ~rk.ok THEN rk
         ELSE LET rv == ParseItem(b, rk.p) IN
              IF ~rv.ok THEN rv ELSE ParseIndefPairs(b, rv.p, Append(acc, <<rk.v, rv.v>>), dummy)

\* chunks of an indefinite-length string of major type mt
ParseChunks(b, p, mt, acc, dummy) ==
    IF p > Len(b) THEN PFail("eof")
    ELSE IF b[p] = 255 THEN [ok |-> TRUE, a |-> acc, p |-> p + 1, canon |-> FALSE]
    ELSE LET h == HeadAt(b, p) IN
         IF ~h.ok THEN h
         ELSE IF h.mt # mt \/ h.ai = 31 THEN PFail("reserved")
         ELSE IF ~BNFitsInt(h.arg) THEN PFail("eof")
         ELSE LET n == BNToNat(h.arg) IN
              IF n > Len(b) - h.p + 1 THEN PFail("eof")
              ELSE ParseChunks(b, h.p + n, mt, acc \o SubSeq(b, h.p, h.p + n - 1), dummy)

ParseItem(b, p) ==
    LET h == HeadAt(b, p) IN
    IF ~h.ok THEN h
    ELSE IF h.ai = 31 THEN
        \* indefinite lengths and the stray break code
        (CASE h.mt = 2 -> LET r == ParseChunks(b, h.p, 2, << >>, 0) IN
                          IF ~r.ok THEN r ELSE [ok |-> TRUE, v |-> CBytes(r.a), p |-> r.p, canon |-> FALSE]
           [] h.mt = 3 -> LET r == ParseChunks(b, h.p, 3, << >>, 0) IN
                          IF ~r.ok THEN r ELSE [ok |-> TRUE, v |-> CText(r.a), p |-> r.p, canon |-> FALSE]
           [] h.mt = 4 -> LET r == ParseIndefElems(b, h.p, << >>, 0) IN
                          IF ~r.ok THEN r ELSE [ok |-> TRUE, v |-> CArr(r.a), p |-> r.p, canon |-> FALSE]
           [] h.mt = 5 -> LET r == ParseIndefPairs(b, h.p, << >>, 0) IN
                          IF ~r.ok THEN r ELSE [ok |-> TRUE, v |-> CMap(r.a), p |-> r.p, canon |-> FALSE]
           [] h.mt = 7 -> PFail("break")
           [] OTHER    -> PFail("reserved"))
    ELSE CASE h.mt = 0 -> [ok |-> TRUE, v |-> CUInt(h.arg), p |-> h.p, canon |-> h.min]
           [] h.mt = 1 -> [ok |-> TRUE, v |-> CNInt(h.arg), p |-> h.p, canon |-> h.min]
           [] h.mt \in {2, 3} ->
                IF ~BNFitsInt(h.arg) THEN PFail("eof")
                ELSE LET n == BNToNat(h.arg) IN
                     IF n > Len(b) - h.p + 1 THEN PFail("eof")
                     ELSE [ok |-> TRUE,
                           v |-> (IF h.mt = 2 THEN CBytes(SubSeq(b, h.p, h.p + n - 1))
                                              ELSE CText(SubSeq(b, h.p, h.p + n - 1))),
                           p |-> h.p + n, canon |-> h.min]
           [] h.mt = 4 ->
                IF ~BNFitsInt(h.arg) \/ BNToNat(h.arg) > Len(b) THEN PFail("eof")
                ELSE LET r == ParseElems(b, h.p, BNToNat(h.arg), << >>, h.min) IN
                     IF ~r.ok THEN r ELSE [ok |-> TRUE, v |-> CArr(r.a), p |-> r.p, canon |-> r.canon]
           [] h.mt = 5 ->
                IF ~BNFitsInt(h.arg) \/ BNToNat(h.arg) > Len(b) THEN PFail("eof")
                ELSE LET r == ParsePairs(b, h.p, BNToNat(h.arg), << >>, h.min) IN
                     IF ~r.ok THEN r ELSE [ok |-> TRUE, v |-> CMap(r.a), p |-> r.p, canon |-> r.canon]
           [] h.mt = 6 ->
                LET r == ParseItem(b, h.p) IN
                IF ~r.ok THEN r ELSE [ok |-> TRUE, v |-> CTag(h.arg, r.v), p |-> r.p, canon |-> FALSE]
           [] h.mt = 7 ->
                IF h.ai = 20 THEN [ok |-> TRUE, v |-> CBool(FALSE), p |-> h.p, canon |-> TRUE]
                ELSE IF h.ai = 21 THEN [ok |-> TRUE, v |-> CBool(TRUE), p |-> h.p, canon |-> TRUE]
                ELSE IF h.ai = 22 THEN [ok |-> TRUE, v |-> CNull, p |-> h.p, canon |-> TRUE]
                ELSE IF h.ai = 23 THEN [ok |-> TRUE, v |-> CUndef, p |-> h.p, canon |-> FALSE]
                ELSE IF h.ai <= 19 THEN [ok |-> TRUE, v |-> CSimple(h.ai), p |-> h.p, canon |-> FALSE]
                ELSE IF h.ai = 24 THEN [ok |-> TRUE, v |-> CSimple(BNToNat(h.arg)), p |-> h.p, canon |-> FALSE]
                ELSE [ok |-> TRUE,
                      v |-> CFloat(h.p - p - 1, SubSeq(b, p + 1, h.p - 1)),
                      p |-> h.p, canon |-> FALSE]

(***************************************************************************)
(* Canonical key order (CTAP 2.1 section 8): lower major type first, then  *)
(* shorter encoding, then bytewise.                                        *)
(***************************************************************************)
KeyBytesLT(e1, e2) ==
    LET m1 == e1[1] \div 32
        m2 == e2[1] \div 32
    IN  \/ m1 < m2
        \/ m1 = m2 /\ Len(e1) < Len(e2)
        \/ m1 = m2 /\ Len(e1) = Len(e2) /\ LexLT(e1, e2)

KeyLT(k1, k2) == KeyBytesLT(Enc(k1), Enc(k2))

\* sort a sequence of <<key, value>> pairs into canonical order
SortPairs(m) == SortSeq(m, LAMBDA x, y : KeyLT(x[1], y[1]))

RECURSIVE TreeSorted(_)
TreeSorted(v) ==
    CASE v.k = "array" -> \A i \in 1..Len(v.a) : TreeSorted(v.a[i])
      [] v.k = "map"   -> /\ \A i \in 1..Len(v.m) : TreeSorted(v.m[i][1]) /\ TreeSorted(v.m[i][2])
                          /\ \A i \in 1..(Len(v.m) - 1) : KeyLT(v.m[i][1], v.m[i + 1][1])
      [] v.k = "tag"   -> TreeSorted(v.v)
      [] OTHER -> TRUE

\* exactly one item, nothing after it, canonical at every level
IsCanonical(b) ==
    LET r == ParseItem(b, 1) IN
    r.ok /\ r.p = Len(b) + 1 /\ r.canon /\ TreeSorted(r.v)

\* why a byte string is not canonical (diagnostics for violation reports)
CanonicalVerdict(b) ==
    LET r == ParseItem(b, 1) IN
    IF ~r.ok THEN "unparseable:" \o r.why
    ELSE IF r.p # Len(b) + 1 THEN "trailing-bytes"
    ELSE IF ~r.canon THEN "non-minimal-indefinite-or-forbidden-type"
    ELSE IF ~TreeSorted(r.v) THEN "keys-unsorted-or-duplicate"
    ELSE "canonical"

\* lookup in a parsed map by key value; <<>> or <<v>>
MapGet(m, key) ==
    LET idx == {i \in 1..Len(m) : m[i][1] = key} IN
    IF idx = {} THEN << >> ELSE <<m[CHOOSE i \in idx : TRUE][2]>>

MapKeys(m) == [i \in 1..Len(m) |-> m[i][1]]

=============================================================================
