SPECIFICATION Spec
CONSTANTS
    F = {}
    Cases <- MC_Cases
    MaxExchanges = 1
INVARIANTS TypeOK DecodeTotal DecodeFaithful KeyAttribution HostCanonical Emit
CHECK_DEADLOCK FALSE
