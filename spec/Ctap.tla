-------------------------------- MODULE Ctap ---------------------------------
(***************************************************************************)
(* The session state machine: one exchange between a platform (host) and   *)
(* an authenticator built on the library, one action per public call of    *)
(* the library (its linearisation points: the call's return, error path    *)
(* included).                                                              *)
(*                                                                         *)
(*   HostSends -> Decode2 / Decode1 -> Call -> HandlerReturns -> Encode2 / *)
(*   Encode1 -> NextExchange                                               *)
(* plus the stand-alone calls (SerializeAuthData, DecodeType, EncodeType). *)
(*                                                                         *)
(* The transport buffer `buf` persists across exchanges; everything else   *)
(* is per exchange.  What the host sends, what the handler answers and the *)
(* buffer capacity are drawn from the scenario's generator `Cases`         *)
(* (a CONSTANT operator overridden by each MC_* module).                   *)
(*                                                                         *)
(* Every property of /verif/properties.jsonl is a named invariant or       *)
(* action property below; the Model_* operators are the single source of   *)
(* truth for "what the library must answer" and are used unchanged by the  *)
(* trace specification (CtapTrace.tla).                                    *)
(***************************************************************************)
EXTENDS AuthData, U2f, Dispatch, Json, FiniteSets

CONSTANTS F,             \* feature configuration, a subset of Features
          Cases,         \* the scenario's generator: a set of case records (each has .op)
          MaxExchanges,  \* how many exchanges a behaviour may contain
          GenOutcomes    \* what the fuzzing generators may produce (resolved by the trace)

VARIABLES phase,    \* "idle" | "received" | "decoded" | "called" | "returned" | "encoded"
          case,     \* the generator case driving this exchange
          wire,     \* Seq(Byte): what the host sent
          req,      \* result of decoding
          calls,    \* Seq([handler, args]): the authenticator's call log (history)
          ret,      \* what the dispatcher returned / the response handed to the encoder
          buf,      \* Seq(Byte): the transport buffer (persists across exchanges)
          stale,    \* what the buffer held when this exchange began (history)
          nexch     \* number of completed exchanges (bounds histories)

vars == <<phase, case, wire, req, calls, ret, buf, stale, nexch>>

NoCase == [op |-> "none"]
None   == << >>

(***************************************************************************)
(* Model_*: the library's contract, call by call                           *)
(***************************************************************************)
TypeByName(n) ==
    CASE n = "Params"  -> T_Params
      [] n = "Formats" -> T_Formats
      [] n = "CoseEcdh" -> T_Cose("ecdh")
      [] n = "CoseAny" -> T_Cose("any")
      [] n = "AttStmt" -> T_AttStmt
      [] n = "GaUnsignedExt" -> T_Empty
      [] n = "Version" -> T_EnumStr(VersionNames)
      [] n = "Extension" -> T_EnumStr(ExtensionNames)
      [] n = "Transport" -> T_EnumStr(TransportNames)
      [] n = "Format" -> T_EnumStr(FormatNames)
      [] n = "PinSub" -> T_EnumU8(PinSubcommands)
      [] n = "CmSub" -> T_EnumU8(CmSubcommands)
      [] n = "CredProtect" -> T_EnumU8(CredProtectPolicies)
      [] n \in SchemaNames -> (IF SchemaKind(n) = "indexed" THEN T_Indexed(n) ELSE T_Struct(n))

\* ctap2::Request::deserialize
Model_decode2(w) ==
    LET r == DecodeRequest(w, F) IN
    [ok |-> r.ok, status |-> r.status, cmd |-> r.cmd, v |-> r.v, code |-> r.code]

\* ctap2::Response::serialize into a buffer of capacity cap (what it held before is irrelevant)
Model_encode2(resp, cap) == [buf |-> SerializeResponse(resp, F, cap)]

\* cbor_deserialize::<T>
Model_decode_type(tn, b) ==
    LET r == Dec(TypeByName(tn), b, 1, F) IN
    IF r.ok THEN [ok |-> TRUE, err |-> "", v |-> r.v]
    ELSE [ok |-> FALSE, err |-> r.e, v |-> << >>]

\* cbor_serialize of a public type
Model_encode_type(tn, v) == [bytes |-> EncTy(TypeByName(tn), v, F)]

\* AuthenticatorData::serialize
Model_authdata(in) == SerializeAuthData(in, F)

\* ctap1::Request::try_from(APDU)
Model_apdu(apdu) == ParseApdu(apdu)

\* ctap1::Response::serialize appended to a buffer holding `pre`, capacity S
Model_u2f_encode(resp, pre, S) == AppendU2f(pre, Ctap1ResponseBytes(resp), S)

(***************************************************************************)
(* Table look-ups (stand-alone conversions of the library)                 *)
(***************************************************************************)
\* Operation::try_from(u8), u8::from(Operation), VendorOperation::try_from(u8).
\* The stand-alone vendor constructor is left unasserted on the two codes FIDO reassigned.
Model_optable(c) ==
    [recognised |-> Recognised(c),
     name |-> (IF Recognised(c) THEN OperationOf(c) ELSE ""),
     back |-> (IF Recognised(c) THEN c ELSE -1),
     into_u8_same |-> TRUE]
    @@ (IF c \in {64, 65} THEN << >>
        ELSE [vendor_ok |-> CommandTable[c].kind = "vendor",
              vendor_back |-> (IF CommandTable[c].kind = "vendor" THEN c ELSE -1)])

EnumStrTable(t) ==
    CASE t = "Version" -> VersionNames [] t = "Extension" -> ExtensionNames
      [] t = "Transport" -> TransportNames [] t = "Format" -> FormatNames
EnumU8Table(t) == CASE t = "CredProtect" -> CredProtectPolicies [] t = "ControlByte" -> U2fControlBytes

Model_enum_str(t, str) == [ok |-> str \in EnumStrTable(t), back |-> (IF str \in EnumStrTable(t) THEN str ELSE << >>)]
Model_enum_u8(t, n)    == [ok |-> n \in EnumU8Table(t), back |-> (IF n \in EnumU8Table(t) THEN n ELSE -1)]

PermissionMask == 63
Model_permissions(n) == PermissionBits @@ [valid |-> n <= PermissionMask]

Model_status_codes ==
    [codes |-> StatusCode, flag_up |-> FLAG_UP, flag_uv |-> FLAG_UV, flag_at |-> FLAG_AT, flag_ed |-> FLAG_ED,
     flag_all |-> FLAG_UP + FLAG_UV + FLAG_AT + FLAG_ED, u2f_no_error |-> 36864]

Model_u2f_register_new(c) ==
    [header |-> c.header, publicKey |-> UncompressedPoint(c.key.x, c.key.y), keyHandle |-> c.keyHandle,
     cert |-> c.cert, sig |-> c.sig]

\* Default / builder constructors and conversion helpers (behaviour beyond the listed properties):
\* CTAP 2.1 6.4 defaults (rk false, up true; everything else absent), an all-zero AAGUID, the
\* empty version list; builders leave every optional member unset.
BlankOf(s) == [k \in AllNames(s) |-> << >>]
GiOptionsDefault == [BlankOf("GetInfoOptions") EXCEPT !.rk = FALSE, !.up = TRUE]
Model_defaults ==
    [getInfoDefault |-> [BlankOf("GetInfoResp") EXCEPT !.versions = << >>, !.aaguid = Rep(0, 16), !.options = <<GiOptionsDefault>>],
     getInfoBuilt |-> [BlankOf("GetInfoResp") EXCEPT !.versions = << >>, !.aaguid = Rep(7, 16)],
     ctapOptionsDefault |-> GiOptionsDefault,
     mcBuiltBytes |-> EncTy(T_Indexed("McResp"), [BlankOf("McResp") EXCEPT !.fmt = N_none, !.authData = <<1, 2>>], F),
     userFrom |-> [id |-> <<9, 9, 9>>, icon |-> << >>, name |-> << >>, displayName |-> << >>],
     paramFromKnown |-> [alg |-> ALG_EdDSA, type |-> N_publicKey],
     paramWithAlg |-> [alg |-> ALG_ES256, type |-> N_publicKey],
     cpDefaultBytes |-> <<160>>, cmDefaultBytes |-> <<160>>,
     mcExtDefault |-> BlankOf("McExt"), gaExtInDefault |-> BlankOf("GaExtIn"),
     extOutUnsetIsSet |-> FALSE, extOutHmacIsSet |-> TRUE,
     credProtectDefault |-> 1, knownAlgs |-> <<ALG_ES256, ALG_EdDSA>>, u2fVersion |-> N_U2F_V2,
     maxMessage |-> MAX_MESSAGE_SIZE, authDataLen |-> AUTHENTICATOR_DATA_LENGTH]

LookupOps == {"optable", "enum_str", "enum_u8", "permissions", "status_codes", "u2f_register_new", "defaults"}
Model_lookup(c) ==
    CASE c.op = "optable" -> Model_optable(c.c)
      [] c.op = "enum_str" -> Model_enum_str(c.table, c.s)
      [] c.op = "enum_u8" -> Model_enum_u8(c.table, c.n)
      [] c.op = "permissions" -> Model_permissions(c.n)
      [] c.op = "status_codes" -> Model_status_codes
      [] c.op = "u2f_register_new" -> Model_u2f_register_new(c)
      [] c.op = "defaults" -> Model_defaults

(***************************************************************************)
(* Dispatch: the request variant, the scripted handler outcome             *)
(*   script = [ok |-> TRUE] (handler succeeds with a canned value)         *)
(*          | [ok |-> FALSE, err |-> n] (handler fails with status n)      *)
(*   hasLb  = the authenticator implements large blobs                     *)
(* Result: [calls |-> Seq(handler name), ok, err, kind]                    *)
(***************************************************************************)
Model_dispatch(variant, script, hasLb) ==
    LET h == HandlerOf(variant) IN
    IF variant = "LargeBlobs" /\ ~hasLb
    THEN [calls |-> << >>, ok |-> FALSE, err |-> DefaultLargeBlobsStatus, kind |-> ""]
    ELSE IF h \in Infallible \/ script.ok
    THEN [calls |-> <<h>>, ok |-> TRUE, err |-> 0, kind |-> WrapOf(variant)]
    ELSE [calls |-> <<h>>, ok |-> FALSE, err |-> script.err, kind |-> ""]

(***************************************************************************)
(* Actions                                                                 *)
(***************************************************************************)
Init ==
    /\ phase = "idle" /\ case = NoCase /\ wire = << >> /\ req = NoCase
    /\ calls = << >> /\ ret = NoCase /\ buf = << >> /\ stale = << >> /\ nexch = 0

\* The host (or the authenticator application, for the stand-alone calls) starts an exchange.
HostSends(c) ==
    /\ phase = "idle" /\ nexch < MaxExchanges
    /\ case' = c
    /\ wire' = (IF c.op \in {"decode2", "apdu", "exchange"} THEN c.wire ELSE << >>)
    /\ phase' = "received"
    \* a scenario may plant arbitrary previous contents in the transport buffer
    /\ buf' = (IF "stale" \in DOMAIN c /\ c.stale # << >> THEN c.stale ELSE buf)
    /\ stale' = buf'
    /\ UNCHANGED <<req, calls, ret, nexch>>

Decode2 ==
    /\ phase = "received" /\ case.op \in {"decode2", "exchange"}
    /\ req' = Model_decode2(wire)
    /\ phase' = "decoded"
    /\ UNCHANGED <<case, wire, calls, ret, buf, stale, nexch>>

Decode1 ==
    /\ phase = "received" /\ case.op = "apdu"
    /\ req' = Model_apdu(wire)
    /\ phase' = "decoded"
    /\ UNCHANGED <<case, wire, calls, ret, buf, stale, nexch>>

DecodeType ==
    /\ phase = "received" /\ case.op = "decode_type"
    /\ req' = Model_decode_type(case.type, case.bytes)
    /\ phase' = "decoded"
    /\ UNCHANGED <<case, wire, calls, ret, buf, stale, nexch>>

Lookup ==
    /\ phase = "received" /\ case.op \in LookupOps
    /\ req' = Model_lookup(case)
    /\ phase' = "decoded"
    /\ UNCHANGED <<case, wire, calls, ret, buf, stale, nexch>>

\* C19: the crate's Arbitrary implementations turn raw bytes into a request, or report that
\* the bytes ran out.  How the bytes are consumed is the arbitrary crate's business and is not
\* modelled: the outcome is nondeterministic here and resolved by the recorded value.
Generate(r) ==
    /\ phase = "received" /\ case.op = "arbitrary"
    /\ req' = r
    /\ phase' = "decoded"
    /\ UNCHANGED <<case, wire, calls, ret, buf, stale, nexch>>

\* dispatch of a decoded (or given, or generated) request to the authenticator
Call ==
    /\ \/ phase = "decoded" /\ case.op = "exchange" /\ req.ok
       \/ phase = "received" /\ case.op = "dispatch"
       \/ phase = "decoded" /\ case.op = "arbitrary" /\ req.result = "ok"
    /\ LET variant == IF case.op = "dispatch" THEN case.variant ELSE req.cmd
           script  == IF case.op = "arbitrary" THEN [ok |-> TRUE, err |-> 0] ELSE case.script
           hasLb   == IF case.op = "arbitrary" THEN TRUE ELSE case.hasLb
           d == Model_dispatch(variant, script, hasLb)
       IN  /\ calls' = d.calls
           /\ ret' = d
    /\ phase' = "returned"
    /\ UNCHANGED <<case, wire, req, buf, stale, nexch>>

\* a request that could not be decoded is answered with its status byte alone
Reject ==
    /\ phase = "decoded" /\ case.op = "exchange" /\ ~req.ok
    /\ ret' = [calls |-> << >>, ok |-> FALSE, err |-> req.status, kind |-> ""]
    /\ phase' = "returned"
    /\ UNCHANGED <<case, wire, req, calls, buf, stale, nexch>>

Encode2 ==
    /\ \/ phase = "received" /\ case.op = "encode2"
       \/ phase = "returned" /\ case.op = "exchange"
    /\ buf' = (IF case.op = "encode2" THEN Model_encode2(case.resp, case.cap).buf
               ELSE IF ret.ok THEN Model_encode2([kind |-> ret.kind, v |-> case.respv], case.cap).buf
               ELSE <<ret.err>>)
    /\ phase' = "encoded"
    /\ UNCHANGED <<case, wire, req, calls, ret, stale, nexch>>

Encode1 ==
    /\ phase = "received" /\ case.op = "u2f_encode"
    /\ LET r == Model_u2f_encode(case.resp, case.pre, case.cap) IN
       /\ ret' = r
       /\ buf' = r.buf
    /\ phase' = "encoded"
    /\ UNCHANGED <<case, wire, req, calls, stale, nexch>>

EncodeType ==
    /\ phase = "received" /\ case.op = "encode_type"
    /\ buf' = Model_encode_type(case.type, case.v).bytes
    /\ phase' = "encoded"
    /\ UNCHANGED <<case, wire, req, calls, ret, stale, nexch>>

SerializeAuthDataAct ==
    /\ phase = "received" /\ case.op = "authdata"
    /\ LET r == Model_authdata(case.in) IN
       /\ ret' = r
       /\ buf' = r.bytes
    /\ phase' = "encoded"
    /\ UNCHANGED <<case, wire, req, calls, stale, nexch>>

\* the exchange is over; the transport keeps its buffer (stale bytes and all)
\* the last phase of the exchange that `case` describes
Terminal ==
    \/ phase = "decoded" /\ case.op \in {"decode2", "apdu", "decode_type"} \cup LookupOps
    \/ phase = "returned" /\ case.op \in {"dispatch", "arbitrary"}
    \/ phase = "decoded" /\ case.op = "arbitrary" /\ req.result # "ok"
    \/ phase = "encoded"

NextExchange ==
    /\ Terminal
    /\ phase' = "idle" /\ nexch' = nexch + 1
    /\ case' = NoCase /\ wire' = << >> /\ req' = NoCase /\ calls' = << >> /\ ret' = NoCase
    /\ UNCHANGED <<buf, stale>>

Next ==
    \/ \E c \in Cases : HostSends(c)
    \/ Decode2 \/ Decode1 \/ DecodeType \/ Lookup \/ Call \/ Reject
    \/ \E r \in GenOutcomes : Generate(r)
    \/ Encode2 \/ Encode1 \/ EncodeType \/ SerializeAuthDataAct
    \/ NextExchange

Spec == Init /\ [][Next]_vars /\ WF_vars(Next)

\* every exchange terminates (checked in one small configuration without a state constraint)
ExchangeTerminates == []<>(phase = "idle")

(***************************************************************************)
(* Replay vectors (spec -> impl): one JSON line per completed exchange,    *)
(* carrying the inputs of every action and the abstract state the library  *)
(* must be in afterwards.  `Emit` is listed as an INVARIANT in the         *)
(* scenario configurations; it is TRUE in every state.                     *)
(***************************************************************************)
ValueFlags == [again_same |-> TRUE, borrowed_inside |-> TRUE, clone_eq |-> TRUE]

VecOf ==
    CASE case.op = "decode2" ->
            [op |-> "decode2", tag |-> case.tag, wire |-> wire, exp |-> req @@ ValueFlags]
      [] case.op = "decode_type" ->
            [op |-> "decode_type", tag |-> case.tag, type |-> case.type, bytes |-> case.bytes,
             exp |-> (IF req.ok THEN req @@ [clone_eq |-> TRUE] ELSE req)
                     @@ (IF "reenc" \in DOMAIN case THEN [reenc |-> <<case.reenc>>] ELSE << >>)]
      [] case.op = "encode2" ->
            [op |-> "encode2", tag |-> case.tag, resp |-> case.resp, cap |-> case.cap,
             stale |-> stale, exp |-> [buf |-> buf]]
      [] case.op = "encode_type" ->
            [op |-> "encode_type", tag |-> case.tag, type |-> case.type, v |-> case.v,
             exp |-> [bytes |-> buf]]
      [] case.op = "authdata" ->
            [op |-> "authdata", tag |-> case.tag, in |-> case.in, exp |-> ret]
      [] case.op = "apdu" ->
            [op |-> "apdu", tag |-> case.tag, wire |-> wire, exp |-> req @@ [same_owned |-> TRUE]]
      [] case.op = "u2f_encode" ->
            [op |-> "u2f_encode", tag |-> case.tag, resp |-> case.resp, pre |-> case.pre, cap |-> case.cap,
             \* on failure only the bytes the buffer already held are specified
             exp |-> IF ret.ok THEN [ok |-> TRUE, kept |-> case.pre, buf |-> ret.buf]
                               ELSE [ok |-> FALSE, kept |-> case.pre]]
      [] case.op = "dispatch" ->
            [op |-> "dispatch", tag |-> case.tag, proto |-> case.proto, variant |-> case.variant,
             wire |-> case.wire, script |-> case.script, hasLb |-> case.hasLb,
             exp |-> ret @@ [args_same |-> TRUE, value_same |-> TRUE, rpc_same |-> TRUE]]
      [] case.op \in LookupOps -> case @@ [exp |-> req]
      [] case.op = "exchange" ->
            [op |-> "exchange", tag |-> case.tag, nexch |-> nexch, wire |-> case.wire, script |-> case.script,
             hasLb |-> case.hasLb, respv |-> case.respv, cap |-> case.cap, stale |-> stale,
             exp |-> [req |-> req, calls |-> calls, buf |-> buf]]

Emit == Terminal => PrintT("VEC " \o ToJson(VecOf))

(***************************************************************************)
(* Type invariant                                                          *)
(***************************************************************************)
TypeOK ==
    /\ phase \in {"idle", "received", "decoded", "called", "returned", "encoded"}
    /\ IsBytes(wire) /\ IsBytes(buf)
    /\ nexch \in 0..MaxExchanges

(***************************************************************************)
(* C04 / C05 on the model: the decoder is total and its status is one of   *)
(* exactly three codes                                                     *)
(***************************************************************************)
DecodeTotal ==
    phase = "decoded" /\ case.op \in {"decode2", "exchange"} =>
        \/ req.ok /\ req.status = 0
        \/ ~req.ok /\ req.status \in {ST_InvalidCommand, ST_InvalidCbor, ST_MissingParameter}


(***************************************************************************)
(* C19: what "internally valid" means for a request value: every text      *)
(* member is well-formed UTF-8, every bounded member is within its         *)
(* capacity, every list within its count, every enumeration in its table.  *)
(***************************************************************************)
RECURSIVE ValidTy(_, _)
ValidMember(m, val) ==
    IF m.req \/ m.ty.t \in {"opt", "some", "strTrunc", "strSkip"} THEN ValidTy(m.ty, val) ELSE FALSE

ValidTy(ty, v) ==
    CASE ty.t = "u8"   -> v \in 0..255
      [] ty.t = "u32"  -> IsBigNat(v) /\ BNLE(v, BNMaxU32)
      [] ty.t = "u64"  -> IsBigNat(v) /\ BNLE(v, BNMaxU64)
      [] ty.t = "i32"  -> v \in Int
      [] ty.t = "bool" -> v \in BOOLEAN
      [] ty.t = "unit" -> v = << >>
      [] ty.t = "bytes" -> IsBytes(v) /\ (ty.max < 0 \/ Len(v) <= ty.max)
      [] ty.t = "bytesExact" -> IsBytes(v) /\ Len(v) = ty.n
      [] ty.t = "str" -> IsBytes(v) /\ IsUtf8(v) /\ (ty.max < 0 \/ Len(v) <= ty.max)
      [] ty.t \in {"strTrunc", "strSkip"} ->
            v = << >> \/ (Len(v) = 1 /\ IsBytes(v[1]) /\ IsUtf8(v[1]) /\ Len(v[1]) <= ty.L)
      [] ty.t = "iconInner" -> v = << >>
      [] ty.t = "enumU8" -> v \in ty.set
      [] ty.t = "enumStr" -> v \in ty.tab
      [] ty.t = "seq" -> (ty.max < 0 \/ Len(v) <= ty.max) /\ \A i \in 1..Len(v) : ValidTy(ty.e, v[i])
      [] ty.t = "params" -> Len(v) <= 2 /\ \A i \in 1..Len(v) : v[i] \in KnownAlgs
      [] ty.t = "formats" -> /\ Len(v.known) <= 2 /\ \A i \in 1..Len(v.known) : v.known[i] \in FormatNames
                             /\ v.unknown \in BOOLEAN
      [] ty.t \in {"struct", "indexed"} ->
            LET ms == Members(ty.s, F) IN \A i \in 1..Len(ms) : ValidMember(ms[i], v[ms[i].name])
      [] ty.t = "cose" -> IsBytes(v.x) /\ IsBytes(v.y) /\ Len(v.x) <= 32 /\ Len(v.y) <= 32
      [] ty.t \in {"opt", "some"} -> v = << >> \/ (Len(v) = 1 /\ ValidTy(ty.i, v[1]))
      [] OTHER -> FALSE

ValidRequest(r) ==
    IF r.proto = "ctap2"
    THEN LET cs == {c \in 0..255 : CommandTable[c].name = r.cmd /\ CommandTable[c].kind \in {"params", "noparams", "vendor"}} IN
         /\ cs # {}
         /\ LET c == CHOOSE c \in cs : TRUE IN
            IF CommandTable[c].kind = "params" THEN ValidTy(T_Indexed(CommandTable[c].schema), r.v) ELSE TRUE
    ELSE /\ r.cmd \in Ctap1Variants
         /\ (r.cmd = "Register" => Len(r.v.challenge) = 32 /\ Len(r.v.appId) = 32)
         /\ (r.cmd = "Authenticate" =>
                Len(r.v.challenge) = 32 /\ Len(r.v.appId) = 32 /\ r.v.control \in U2fControlBytes /\ IsBytes(r.v.keyHandle))

\* generation either reports that the bytes ran out or yields a valid request that can be
\* formatted, cloned, compared and dispatched (to exactly its handler)
GeneratedValid ==
    phase \in {"decoded", "returned"} /\ case.op = "arbitrary" =>
        \/ req.result = "not_enough_data"
        \/ /\ req.result = "ok" /\ ValidRequest(req)
           /\ req.debug_ok /\ req.clone_eq /\ req.dispatch_ok
           /\ req.calls = <<HandlerOf(req.cmd)>>

(***************************************************************************)
(* C01: a well-formed request (case.sv is the sent value) decodes to the   *)
(* request in which every parameter carries exactly what was sent under    *)
(* its key, lossy members as documented, unsent optional members absent.   *)
(* Two independent paths: the table-driven host encoder and Lossy on one   *)
(* side, the streaming decoder on the other.                               *)
(***************************************************************************)
DecodeFaithful ==
    phase = "decoded" /\ case.op = "decode2" /\ case.sv # << >> =>
        req = [ok |-> TRUE, status |-> 0, cmd |-> CommandTable[case.c].name,
               v |-> LossyRequest(case.c, case.sv[1], F), code |-> 0]

\* the keys on the wire (generic parser) are exactly the keys of the members reported present
KeyAttribution ==
    phase = "decoded" /\ case.op = "decode2" /\ case.sv # << >> /\ req.ok =>
        LET tree == ParseItem(wire, 2).v
            ms   == Members(CommandTable[case.c].schema, F)
        IN  {tree.m[i][1] : i \in 1..Len(tree.m)}
              = {ms[i].key : i \in {j \in 1..Len(ms) : ms[j].req \/ req.v[ms[j].name] # << >>}}

\* the same for a nested public type decoded on its own (case.sv is the sent value)
TypeDecodeFaithful ==
    phase = "decoded" /\ case.op = "decode_type" /\ "sv" \in DOMAIN case =>
        req = [ok |-> TRUE, err |-> "", v |-> Lossy(TypeByName(case.type), case.sv[1], F)]

\* scenarios that state the outcome they expect from an independent table
\* (limits, well-formedness): accept / drop (accepted, member absent) / reject
ExpectedOutcome ==
    phase = "decoded" /\ case.op \in {"decode2", "decode_type"} /\ "expect" \in DOMAIN case =>
        CASE case.expect \in {"accept", "drop"} -> req.ok
          [] case.expect = "reject" ->
                ~req.ok /\ (IF case.op = "decode2" THEN req.status = ST_InvalidCbor ELSE req.err = "invalid")

\* what the host sends in these scenarios is itself canonical CBOR
HostCanonical ==
    phase = "received" /\ case.op = "decode2" /\ case.sv # << >> => IsCanonical(SubSeq(wire, 2, Len(wire)))


(***************************************************************************)
(* C05: a request carrying a single fault is rejected with exactly the     *)
(* status the kind of fault calls for (the table is in the scenario's      *)
(* ExpectedStatus, the decision in the streaming decoder); in particular a *)
(* message lacking a required parameter is never accepted.                 *)
(***************************************************************************)
StatusByFaultKind ==
    phase = "decoded" /\ case.op = "decode2" /\ "fault" \in DOMAIN case =>
        /\ ~req.ok
        /\ req.status = (CASE case.fault = "command" -> ST_InvalidCommand
                           [] case.fault = "missing" -> ST_MissingParameter
                           [] OTHER -> ST_InvalidCbor)

(***************************************************************************)
(* C02 / C03 / C17 on the model.                                           *)
(***************************************************************************)
\* generic-parser view of a response body
BodyOf(msg) == SubSeq(msg, 2, Len(msg))

\* C02: status 0x00, then exactly one map whose pairs are exactly the set members under their
\* keys; nothing when no member is set; never a null
EncodeExact ==
    phase = "encoded" /\ case.op = "encode2" /\ Len(EncodeResponse(case.resp, F)) <= case.cap =>
        LET s  == RespSchema(case.resp.kind)
            ms == IF s = "" THEN << >> ELSE Members(s, F)
            present == {i \in 1..Len(ms) : ms[i].req \/ case.resp.v[ms[i].name] # << >>}
        IN  /\ buf[1] = 0
            /\ IF present = {} THEN Len(buf) = 1
               ELSE LET r == ParseItem(buf, 2) IN
                    /\ r.ok /\ r.p = Len(buf) + 1 /\ r.v.k = "map"
                    /\ Len(r.v.m) = Cardinality(present)
                    /\ {r.v.m[i][1] : i \in 1..Len(r.v.m)} = {ms[i].key : i \in present}
                    /\ \A i \in 1..Len(r.v.m) : r.v.m[i][2].k # "null"
                    /\ \A i \in present :
                          MapGet(r.v.m, ms[i].key) =
                            <<ToTree(InnerTy(ms[i].ty),
                                     IF ms[i].req THEN case.resp.v[ms[i].name] ELSE case.resp.v[ms[i].name][1],
                                     F, FALSE)>>

\* C03: every emitted body, and every serialised public type, is canonical
OutputCanonical ==
    /\ (phase = "encoded" /\ case.op = "encode2" /\ Len(buf) > 1 => IsCanonical(BodyOf(buf)))
    /\ (phase = "encoded" /\ case.op = "encode_type" => IsCanonical(buf))
    /\ (phase = "encoded" /\ case.op = "authdata" /\ ret.ok /\ case.in.ext # << >> =>
            IsCanonical(ExtBytes(case.in, F)))

\* C17: complete message or the single byte 0x7F
FitsOrOneByteError ==
    phase = "encoded" /\ case.op = "encode2" =>
        LET full == EncodeResponse(case.resp, F) IN
        IF Len(full) <= case.cap THEN buf = full ELSE buf = <<ST_Other>>

\* C17: the encoder does not read the buffer (action property)
StaleIndependence ==
    [][phase' = "encoded" /\ case'.op = "encode2" => buf' = SerializeResponse(case'.resp, F, case'.cap)]_vars

=============================================================================
