-------------------------------- MODULE Prefix --------------------------------
(***************************************************************************)
(* The byte-feeding automaton (DESIGN.md section 4.3).                     *)
(*                                                                         *)
(* The request decoder reads left to right and ignores trailing bytes, so  *)
(* a prefix whose decoding is DECIDED (it succeeded, or failed for a       *)
(* reason other than running out of input) decides all its extensions.     *)
(* Only prefixes that fail with "unexpected end" are live.  Feeding every  *)
(* byte to every live prefix visits 256 x #live states instead of          *)
(* 256^depth, and yields the table  prefix |-> outcome  against which the  *)
(* harness judges the WHOLE input space up to that depth.                  *)
(***************************************************************************)
EXTENDS CtapCodec, Json

CONSTANTS F, Depth, FirstBytes

VARIABLES prefix, outcome      \* outcome = [ok, status, live, unspec]

vars == <<prefix, outcome>>

Classify(p) ==
    LET r == DecodeRequest(p, F) IN
    [ok |-> r.ok, status |-> r.status, live |-> (~r.ok /\ r.eof /\ ~r.unspec), unspec |-> r.unspec]

Init == \E c \in FirstBytes : prefix = <<c>> /\ outcome = Classify(<<c>>)

Feed(x) ==
    /\ outcome.live /\ Len(prefix) < Depth
    /\ prefix' = Append(prefix, x)
    /\ outcome' = Classify(prefix')

Next == \E x \in 0..255 : Feed(x)

Spec == Init /\ [][Next]_vars

TypeOK == IsBytes(prefix) /\ outcome.status \in {0, ST_InvalidCommand, ST_InvalidCbor, ST_MissingParameter}

\* C04 / C05 on the model: three codes only, and success has status 0
DecodeTotal == (outcome.ok <=> outcome.status = 0)

\* a decided prefix decides its extensions (checked on sample extensions; the harness checks the
\* complete space against the emitted table)
SampleTails == {<<0>>, <<24>>, <<96>>, <<161>>, <<246>>, <<255>>, <<1, 2, 3, 4, 5, 6, 7, 8, 9>>, <<191, 255, 0>>}
PrefixDeterminism ==
    ~outcome.live /\ ~outcome.unspec =>
        \A t \in SampleTails :
            LET r == DecodeRequest(prefix \o t, F) IN r.ok = outcome.ok /\ r.status = outcome.status

\* a live prefix is never an accepted request
LiveIsRejected == outcome.live => ~outcome.ok /\ outcome.status = ST_InvalidCbor

Emit == PrintT("PFX " \o ToJson([p |-> prefix, ok |-> outcome.ok, status |-> outcome.status,
                                   live |-> outcome.live, unspec |-> outcome.unspec]))
=============================================================================
