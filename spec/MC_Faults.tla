------------------------------ MODULE MC_Faults ------------------------------
(* Scenario: every single fault of every kind applied to seed requests.  C05. *)
EXTENDS Ctap, Gen, Faults

CONSTANT SeedKinds      \* subset of {"min", "full"}

SeedCommands == {1, 2, 6, 10, 12}

Seeds ==
    {[c |-> c, sv |-> ReqMin(c)] : c \in (IF "min" \in SeedKinds THEN SeedCommands ELSE {})}
    \cup {[c |-> c, sv |-> ReqRich(c, F)] : c \in (IF "full" \in SeedKinds THEN SeedCommands ELSE {})}
    \* lists whose later entries the decoder filters out or ignores must still be well-formed
    \cup (IF "full" \in SeedKinds
          THEN {[c |-> 1, sv |-> [McReqMin EXCEPT !.pubKeyCredParams = <<ParamOf(ALG_ES256), ParamOf(ALG_EdDSA), ParamOf(-257), ParamOf(ALG_ES256)>>,
                                                 !.options = <<AuthOptsFull>>,
                                                 !.attestationFormatsPreference = <<<<N_packed, N_none, N_tpm, N_packed>>>>]],
                \* entries that will be FILTERED OUT (another type, another algorithm) are still entries:
                \* a fault inside one of them is a fault of the request
                [c |-> 1, sv |-> [McReqMin EXCEPT !.pubKeyCredParams = <<[alg |-> ALG_ES256, type |-> <<111, 116, 104, 101, 114>>], ParamOf(ALG_EdDSA),
                                                                         [alg |-> -257, type |-> N_tpm], ParamOf(ALG_ES256)>>,
                                                 !.options = <<AuthOptsFull>>,
                                                 !.attestationFormatsPreference = <<<<N_tpm, N_packed>>>>]],
                [c |-> 2, sv |-> [GaReqMin EXCEPT !.allowList = <<<<[id |-> Pattern(3, 16), type |-> <<111, 116, 104, 101, 114>>], GDesc(2)>>>>]],
                \* members whose value is DROPPED (an over-long icon, over-long names) are still members:
                \* duplicating them is a duplicate
                [c |-> 1, sv |-> [McReqMin EXCEPT !.user = [UserMin EXCEPT !.icon = <<AsciiPattern(4, 200)>>, !.name = <<AsciiPattern(5, 100)>>,
                                                                          !.displayName = <<AsciiPattern(6, 65)>>],
                                                 !.rp = [RpMin EXCEPT !.icon = <<AsciiPattern(7, 300)>>, !.name = <<AsciiPattern(8, 70)>>]]],
                [c |-> 2, sv |-> [GaReqMin EXCEPT !.allowList = <<<<GDesc(1), GDesc(2), GDesc(3)>>>>,
                                                 !.attestationFormatsPreference = <<<<N_none, N_packed, N_tpm>>>>]]}
          ELSE {})

SeedTy(s)   == T_Indexed(CommandTable[s.c].schema)
SeedTree(s) == ToTree(SeedTy(s), s.sv, F, TRUE)

FaultCase(s, f) ==
    [op |-> "decode2", tag |-> "fault:" \o f.kind, c |-> s.c, sv |-> << >>, fault |-> f.kind,
     wire |-> IF "bytes" \in DOMAIN f THEN f.bytes ELSE <<s.c>> \o Enc(f.tree)]

TreeFaults(s) ==
    LET t == SeedTree(s) IN
    WideFaults(t) \cup IndefFaults(t) \cup WrongTypeFaults(t)
    \cup RemoveRequiredFaults(SeedTy(s), t, F) \cup DuplicateFaults(SeedTy(s), t, F)

\* a member given as null (read as absent where that is tolerated) and then given again
NullThenValue ==
    LET t == ToTree(T_Indexed("McReq"), McReqMin, F, TRUE)
        u == CHOOSE i \in 1..Len(t.m) : t.m[i][1] = CU(3)
        um == t.m[u][2].m
    IN  {[op |-> "decode2", tag |-> "fault:duplicate", c |-> 1, sv |-> << >>, fault |-> "duplicate",
          wire |-> <<1>> \o Enc(Put(t, <<2 * u>>, CMap(um \o << <<CText(k), CNull>>, <<CText(k), v>> >>)))] :
            k \in {N_name, N_displayName}, v \in {CText(AsciiPattern(1, 4)), CNull}}

MC_Cases ==
    NullThenValue \cup
    UNION {{FaultCase(s, f) : f \in TreeFaults(s) \cup TruncationFaults(<<s.c>> \o Enc(SeedTree(s)))} : s \in Seeds}
=============================================================================
