------------------------------ MODULE AuthData ------------------------------
(***************************************************************************)
(* WebAuthn authenticator data (WebAuthn L2 section 6.1, attested          *)
(* credential data section 6.5.1):                                         *)
(*   rpIdHash(32) || flags(1) || signCount(4, big-endian)                  *)
(*   || [aaguid || credentialIdLength(2, big-endian) || credentialId       *)
(*       || credentialPublicKey] || [CBOR extension map]                   *)
(* flag bits: UP 0x01, UV 0x04, AT 0x40, ED 0x80.                          *)
(*                                                                         *)
(* Input record:                                                           *)
(*   [flavour \in {"mc","ga","custom"}, rpIdHash, flags \in 0..255, count: BigNat,  *)
(*    acd: option of [aaguid, idLen, idSeed, pk], ext: option of record]   *)
(* The credential id is Pattern(idSeed, idLen): long ids (up to 70 000     *)
(* bytes) are carried as a length and a seed and are only materialised     *)
(* when they can fit.                                                      *)
(***************************************************************************)
EXTENDS CtapCodec

FLAG_UP == 1
FLAG_UV == 4
FLAG_AT == 64
FLAG_ED == 128
FlagSets == {up + uv + at + ed : up \in {0, FLAG_UP}, uv \in {0, FLAG_UV}, at \in {0, FLAG_AT}, ed \in {0, FLAG_ED}}

MAX_CRED_ID == 65535

ExtSchema(flavour) == CASE flavour \in {"mc", "raw"} -> "McExt" [] flavour = "ga" -> "GaExtOut" [] flavour = "custom" -> "CallerExt" [] flavour = "wide" -> "CallerWide"

ExtBytes(in, F) == IF in.ext = << >> THEN << >> ELSE EncTy(T_Struct(ExtSchema(in.flavour)), in.ext[1], F)

\* total length, computed without building the credential id
AuthDataLen(in, F) ==
    37 + (IF in.acd = << >> THEN 0
          ELSE Len(in.acd[1].aaguid) + 2 + in.acd[1].idLen + Len(in.acd[1].pk))
       + Len(ExtBytes(in, F))

\* [ok |-> TRUE, bytes] or [ok |-> FALSE, bytes |-> <<>>]  (failure is status Other, 0x7F)
SerializeAuthData(in, F) ==
    IF (in.acd # << >> /\ in.acd[1].idLen > MAX_CRED_ID) \/ AuthDataLen(in, F) > AUTHENTICATOR_DATA_LENGTH
    THEN [ok |-> FALSE, bytes |-> << >>]
    ELSE [ok |-> TRUE,
          bytes |-> in.rpIdHash \o <<in.flags>> \o BNPad(in.count, 4)
                    \o (IF in.acd = << >> THEN << >>
                        ELSE LET a == in.acd[1] IN
                             a.aaguid \o BE(a.idLen, 2) \o Pattern(a.idSeed, a.idLen) \o a.pk)
                    \o ExtBytes(in, F)]

(***************************************************************************)
(* Independent inverse at the fixed offsets 0 / 32 / 33 / 37 / 53 / 55     *)
(* (1-based: 1 / 33 / 34 / 38 / 54 / 56).  Needs a 16-byte aaguid and a    *)
(* public key that is one CBOR item, as WebAuthn prescribes.               *)
(***************************************************************************)
ParseBack(b, hasAcd, hasExt) ==
    LET hash  == SubSeq(b, 1, 32)
        flags == b[33]
        count == BNNorm(SubSeq(b, 34, 37))
    IN  IF ~hasAcd THEN
            [rpIdHash |-> hash, flags |-> flags, count |-> count, acd |-> << >>,
             extBytes |-> SubSeq(b, 38, Len(b))]
        ELSE LET aaguid == SubSeq(b, 38, 53)
                 idLen  == b[54] * 256 + b[55]
                 id     == SubSeq(b, 56, 55 + idLen)
                 pkr    == ParseItem(b, 56 + idLen)
             IN  [rpIdHash |-> hash, flags |-> flags, count |-> count,
                  acd |-> <<[aaguid |-> aaguid, id |-> id,
                             pk |-> SubSeq(b, 56 + idLen, pkr.p - 1)]>>,
                  extBytes |-> SubSeq(b, pkr.p, Len(b))]

=============================================================================
