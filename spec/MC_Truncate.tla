----------------------------- MODULE MC_Truncate -----------------------------
(* Scenario: names cut at 64 bytes for every pattern of character widths       *)
(* straddling the cut and every alignment; total lengths 0..300; icons of      *)
(* every length; ill-formed UTF-8 at every position.  C13 (with C12's icon     *)
(* rule).                                                                      *)
EXTENDS Ctap, Gen, Dict

CONSTANT Deep      \* BOOLEAN: the thorough tier sweeps every icon length and every position

\* a character of the given width in bytes, from two alphabets
CharA(w) == CASE w = 1 -> <<97>> [] w = 2 -> EncodeScalar(233) [] w = 3 -> EncodeScalar(8364) [] w = 4 -> EncodeScalar(128512)
CharLo(w) == CASE w = 1 -> <<0>> [] w = 2 -> EncodeScalar(128) [] w = 3 -> EncodeScalar(2048) [] w = 4 -> EncodeScalar(65536)
CharHi(w) == CASE w = 1 -> <<127>> [] w = 2 -> EncodeScalar(2047) [] w = 3 -> EncodeScalar(65535) [] w = 4 -> EncodeScalar(1114111)

Widths == 1..4
\* pad ASCII bytes, then four characters of widths ws, then tail ASCII bytes
Straddle(pad, ws, tail, Ch(_)) ==
    AsciiPattern(1, pad) \o Ch(ws[1]) \o Ch(ws[2]) \o Ch(ws[3]) \o Ch(ws[4]) \o AsciiPattern(2, tail)

\* the cut at 64 falls at every offset inside every character of the four (pad 64-15 .. 64)
StraddleNames ==
    {Straddle(pad, ws, 5, CharA) : pad \in (IF Deep THEN 49..64 ELSE 58..64), ws \in [1..4 -> Widths]}
    \cup {Straddle(pad, ws, 0, CharLo) : pad \in (IF Deep THEN 49..64 ELSE 61..64), ws \in [1..4 -> {1, 4}] \cup [1..4 -> {2, 3}]}
    \cup {Straddle(pad, ws, 9, CharHi) : pad \in (IF Deep THEN 49..64 ELSE 61..64), ws \in [1..4 -> {1, 4}] \cup [1..4 -> {2, 3}]}
\* a thinner set for the second and third placement in the quick tier
StraddleThin == IF Deep THEN StraddleNames ELSE {Straddle(pad, ws, 5, CharA) : pad \in 61..64, ws \in [1..4 -> Widths]}

RepChar(ch, n) == IF n = 0 THEN << >> ELSE [i \in 1..(n * Len(ch)) |-> ch[((i - 1) % Len(ch)) + 1]]
LengthNames ==
    {AsciiPattern(3, n) : n \in (IF Deep THEN 0..300 ELSE {0, 1, 2, 62, 63, 64, 65, 66, 67, 68, 100, 128, 255, 256, 300})}
    \cup {RepChar(CharA(w), n) : w \in 2..4, n \in {1, 15, 16, 17, 21, 22, 31, 32, 33, 75}}

\* particular characters, not only widths: joiners, marks, selectors, white space, the characters
\* the source itself names.  Each one as the LAST character that fits, as the first that does
\* not, and across the cut (it ends at byte 62..64+width), followed by more text; and names that
\* fill the field exactly, or overflow it, ending in white space
SpecialChars ==
    {EncodeScalar(cp) : cp \in {0, 9, 10, 32, 127, 160, 173, 769, 8203, 8204, 8205, 8206, 8207, 8232, 8288, 65039, 65279, 65533, 127995, 917631}}
    \cup {w \in DictChars : IsUtf8(w)}
SpecialNames ==
    UNION {{AsciiPattern(1, pad) \o ch \o AsciiPattern(2, 8) : pad \in (62 - Len(ch))..64} : ch \in SpecialChars}
    \cup UNION {{AsciiPattern(1, n - Len(ch)) \o ch : n \in {63, 64, 65, 66}} : ch \in {<<32>>, <<9>>, <<10>>, EncodeScalar(160), EncodeScalar(8205)}}
    \cup {<<32>> \o AsciiPattern(1, n) : n \in {62, 63, 64}}

\* RUNS of characters that belong together (a language tag, an emoji sequence, a flag, a stack of
\* combining marks): the cut at every character boundary inside the run and just around it, and
\* the run as the END of the name -- short, and longer than the whole field
RECURSIVE Cat(_)
Cat(ss) == IF ss = << >> THEN << >> ELSE Head(ss) \o Cat(Tail(ss))
Scal(cps) == Cat([i \in 1..Len(cps) |-> EncodeScalar(cps[i])])
Runs == {
    Scal(<<917505, 917605, 917614, 917549, 917589, 917587>>),            \* language tag: U+E0001 e n - U S
    Scal(<<917505, 917605, 917614>>) \o EncodeScalar(8207),              \* ... followed by a direction mark
    Scal(<<128104, 8205, 128105, 8205, 128103>>),                        \* family: man ZWJ woman ZWJ girl
    Scal(<<127482, 127480, 127465, 127466>>),                            \* two flags (regional indicators)
    Scal(<<127988, 917607, 917602, 917605, 917614, 917607, 917631>>),    \* subdivision flag: black flag + tags + cancel
    Scal(<<101, 769, 770, 771, 772>>),                                   \* e with four combining marks
    Scal(<<10084, 65039, 8205, 128293>>),                                \* heart VS16 ZWJ fire
    Scal(<<4352, 4449, 4520>>) }                                         \* conjoining Hangul jamo
\* byte offsets at which a run's characters start (0-based), plus its length
RECURSIVE StartsOf(_, _)
StartsOf(b, i) == IF i > Len(b) THEN {Len(b)} ELSE {i - 1} \cup StartsOf(b, i + CharLenAt(b, i))
RunNames ==
    UNION {{AsciiPattern(1, pad) \o r \o AsciiPattern(2, 6) : pad \in {p \in {64 - o : o \in StartsOf(r, 1)} \cup {63, 65} : p >= 0}} : r \in Runs}
    \cup UNION {{AsciiPattern(1, pad) \o r : pad \in {0, 10, 50, 60, 63}} : r \in Runs}
    \* a language tag whose tag characters alone exceed the field
    \cup {AsciiPattern(1, pad) \o EncodeScalar(917505) \o RepChar(EncodeScalar(917605), n) \o tail :
             pad \in {0, 5, 60}, n \in {0, 1, 14, 15, 16, 17, 20}, tail \in {<< >>, EncodeScalar(8207)}}

Names == StraddleNames \cup LengthNames \cup SpecialNames \cup RunNames

TCase(tn, sv, tag) ==
    TypeDecCase(tn, HostEncTy(TypeByName(tn), sv, F), tag) @@ [sv |-> <<sv>>]

NameCases ==
    {TCase("User", [UserMin EXCEPT !.name = <<n>>], "user.name") : n \in Names}
    \cup {TCase("User", [UserMin EXCEPT !.displayName = <<n>>], "user.displayName") : n \in StraddleThin \cup LengthNames}
    \cup {TCase("Rp", [RpMin EXCEPT !.name = <<n>>], "rp.name") : n \in StraddleThin \cup LengthNames \cup SpecialNames}
    \* a name is a name whatever else in the entity holds the same bytes (the user handle, the other name)
    \cup {TCase("User", [UserMin EXCEPT !.id = w, !.name = <<w>>], "user.name-equals-id") : w \in {AsciiPattern(7, n) : n \in {1, 16, 32, 64}}}
    \cup {TCase("User", [UserMin EXCEPT !.id = AsciiPattern(7, 64), !.displayName = <<AsciiPattern(7, n)>>], "user.displayName-truncated-to-id") : n \in {64, 65, 80}}
    \cup {TCase("User", [UserMin EXCEPT !.name = <<w>>, !.displayName = <<w>>], "user.names-equal") : w \in {AsciiPattern(7, 10), AsciiPattern(7, 70)}}
    \cup {TCase("Rp", [RpMin EXCEPT !.name = <<RpMin.id>>], "rp.name-equals-id")}
    \* inside complete requests
    \cup {SentCase(1, [McReqMin EXCEPT !.user = [UserMin EXCEPT !.name = <<n>>, !.displayName = <<n>>],
                                       !.rp = [RpMin EXCEPT !.name = <<n>>]], "mc.names", F) : n \in StraddleThin}
    \cup {SentCase(10, [CmReqMin EXCEPT !.subCommand = 7,
                                        !.subCommandParams = <<[CmParamsMin EXCEPT !.user = <<[UserMin EXCEPT !.name = <<n>>]>>]>>],
                   "cm.updateUserInformation.name", F) : n \in LengthNames}

IconLengths == IF Deep THEN 0..300 ELSE {0, 1, 23, 24, 127, 128, 129, 130, 255, 256, 300}
IconCases ==
    {TCase("User", [UserMin EXCEPT !.icon = <<AsciiPattern(4, n)>>], "user.icon") : n \in IconLengths}
    \cup {TCase("User", [UserMin EXCEPT !.icon = <<RepChar(CharA(3), n)>>], "user.icon-multibyte") : n \in {42, 43, 100}}
    \cup {TCase("Rp", [RpMin EXCEPT !.icon = <<AsciiPattern(5, n)>>], "rp.icon") : n \in IconLengths}
    \cup {SentCase(1, [McReqMin EXCEPT !.user = [UserMin EXCEPT !.icon = <<AsciiPattern(4, n)>>],
                                       !.rp = [RpMin EXCEPT !.icon = <<AsciiPattern(5, n)>>]], "mc.icons", F) : n \in IconLengths}
    \* the discarded relying-party icon made of 2-, 3- and 4-byte characters at every alignment
    \cup {TCase("Rp", [RpMin EXCEPT !.icon = <<AsciiPattern(5, pad) \o RepChar(CharA(w), k)>>], "rp.icon-multibyte") :
             w \in {2, 3, 4}, pad \in 0..3, k \in {1, 5, 8, 11, 12, 13, 16, 17, 21, 22, 32, 33, 43, 64, 65}}
    \cup {TCase("User", [UserMin EXCEPT !.icon = <<AsciiPattern(5, pad) \o RepChar(CharA(w), k)>>], "user.icon-multibyte") :
             w \in {2, 3, 4}, pad \in 0..3, k \in {1, 16, 31, 32, 33, 42, 43, 63, 64, 65}}
    \* the legacy spelling "url" of the relying-party icon
    \cup {TypeDecCase("Rp", Enc(CMap(<< <<CText(N_id), CText(RpMin.id)>>, <<CText(N_url), CText(AsciiPattern(6, n))>> >>)), "rp.url")
            @@ [sv |-> <<[RpMin EXCEPT !.icon = <<AsciiPattern(6, n)>>]>>] : n \in {0, 1, 128, 129, 300}}

\* ill-formed UTF-8 (Unicode 15 table 3-7 violations) at position k of a 70-byte name
IllFormed == {<<128>>, <<191>>, <<192, 128>>, <<193, 191>>, <<224, 128, 128>>, <<240, 128, 128, 128>>,
              <<237, 160, 128>>, <<237, 191, 191>>, <<244, 144, 128, 128>>, <<245, 128, 128, 128>>, <<255>>, <<254>>,
              <<194>>, <<226, 130>>, <<240, 159, 152>>}
Positions == IF Deep THEN 0..70 ELSE {0, 1, 30, 60, 61, 62, 63, 64, 65, 69, 70}
BadText(bad, k) == AsciiPattern(7, k) \o bad \o AsciiPattern(8, 70 - k)
UserWith(field, t) == CMap(<< <<CText(N_id), CBytes(UserMin.id)>>, <<CText(field), CText(t)>> >>)
RpWith(field, t)   == CMap(<< <<CText(N_id), CText(RpMin.id)>>, <<CText(field), CText(t)>> >>)

IllFormedCases ==
    {TypeDecCase("User", Enc(UserWith(f, BadText(bad, k))), "ill-formed:user") @@ [expect |-> "reject"] :
        f \in {N_name, N_displayName, N_icon}, bad \in IllFormed, k \in Positions}
    \cup {TypeDecCase("Rp", Enc(RpWith(f, BadText(bad, k))), "ill-formed:rp") @@ [expect |-> "reject"] :
        f \in {N_name, N_icon, N_url}, bad \in IllFormed, k \in Positions}
    \cup {TypeDecCase("Rp", Enc(CMap(<< <<CText(N_id), CText(BadText(bad, k))>> >>)), "ill-formed:rp.id") @@ [expect |-> "reject"] :
        bad \in IllFormed, k \in {0, 35, 70}}

MC_Cases == NameCases \cup IconCases \cup IllFormedCases

\* the lossy text members inside complete requests (C01: "apart from the documented lossy members")
C01_Cases ==
    {SentCase(1, [McReqMin EXCEPT !.user = [UserMin EXCEPT !.name = <<n>>, !.displayName = <<n>>],
                                       !.rp = [RpMin EXCEPT !.name = <<n>>]], "mc.names", F) : n \in StraddleThin \cup LengthNames \cup SpecialNames \cup RunNames}
    \cup {SentCase(10, [CmReqMin EXCEPT !.subCommand = 7,
                                        !.subCommandParams = <<[CmParamsMin EXCEPT !.user = <<[UserMin EXCEPT !.name = <<n>>, !.displayName = <<n>>]>>]>>],
                   "cm.updateUserInformation.names", F) : n \in StraddleThin}
    \cup {SentCase(1, [McReqMin EXCEPT !.user = [UserMin EXCEPT !.icon = <<AsciiPattern(4, n)>>],
                                       !.rp = [RpMin EXCEPT !.icon = <<AsciiPattern(5, n)>>]], "mc.icons", F) : n \in IconLengths}

\* the part of this corpus that C04 replays (capacity handling of text members must not crash)
C04_Cases ==
    {TCase("User", [UserMin EXCEPT !.name = <<n>>], "user.name") : n \in StraddleNames \cup SpecialNames \cup RunNames}
    \cup {SentCase(1, [McReqMin EXCEPT !.user = [UserMin EXCEPT !.name = <<n>>, !.displayName = <<n>>],
                                       !.rp = [RpMin EXCEPT !.name = <<n>>]], "mc.names", F) : n \in StraddleThin}
    \cup {SentCase(10, [CmReqMin EXCEPT !.subCommand = 7,
                                        !.subCommandParams = <<[CmParamsMin EXCEPT !.user = <<[UserMin EXCEPT !.displayName = <<n>>]>>]>>],
                   "cm.updateUserInformation.displayName", F) : n \in StraddleThin}
    \cup IconCases

(***************************************************************************)
(* C13 on the model                                                        *)
(***************************************************************************)
\* the precondition of the implementation's unchecked unwrap, and the agreement of the
\* four-byte window scan with the declarative "longest prefix on a boundary"
WindowLemmaHolds == \A n \in Names : IsUtf8(n) /\ WindowLemma(n, 64)

ASSUME WindowLemmaHolds

TruncateOnBoundary ==
    phase = "decoded" /\ req.ok /\ "sv" \in DOMAIN case /\ case.op = "decode_type" =>
        \A f \in {"name", "displayName"} :
            f \in DOMAIN req.v /\ req.v[f] # << >> =>
                LET out == req.v[f][1]
                    in  == case.sv[1][f][1]
                IN  /\ IsUtf8(out) /\ Len(out) <= 64 /\ IsPrefixOf(out, in)
                    /\ (Len(in) <= 64 => out = in)
                    \* longest: the next boundary of the input lies beyond 64 bytes
                    /\ \A j \in (Len(out) + 1)..(IF Len(in) < 64 THEN Len(in) ELSE 64) : ~IsBoundary(in, j)
=============================================================================
