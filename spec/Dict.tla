-------------------------------- MODULE Dict --------------------------------
(***************************************************************************)
(* The DICTIONARY of the source under test: the bytes of every string /    *)
(* byte-string / char literal and every integer literal of /repo/src (the  *)
(* current working tree), harvested by bin/harvest.py before each check    *)
(* and read here from the JSON file named by the environment variable      *)
(* CTV_DICT (default: dict.default.json next to this module, harvested     *)
(* from the pinned tree).                                                  *)
(*                                                                         *)
(* Code that treats ONE particular content specially -- a magic relying-   *)
(* party id, a scheme prefix of an icon, an aliased algorithm number, a    *)
(* second spelling of a member name -- names that content in its source.   *)
(* The scenario modules therefore use the dictionary as further candidate  *)
(* values: for text members, for the names of unknown members, for         *)
(* identifier look-ups and for algorithm identifiers.  The expected        *)
(* outcome of every such case still comes from the specification alone.    *)
(***************************************************************************)
EXTENDS Json, IOUtils, Sequences, Integers, FiniteSets

DictFile == IF "CTV_DICT" \in DOMAIN IOEnv THEN IOEnv.CTV_DICT ELSE "dict.default.json"
DictRaw  == JsonDeserialize(DictFile)

DictTexts == {DictRaw.texts[i] : i \in DOMAIN DictRaw.texts}      \* byte tuples, 1..48 bytes
DictInts  == {DictRaw.ints[i] : i \in DOMAIN DictRaw.ints}        \* signed 32-bit range

\* the words that are well-formed ASCII text (usable where the member must be valid UTF-8)
DictAscii == {w \in DictTexts : \A i \in 1..Len(w) : w[i] >= 32 /\ w[i] < 127}
\* multi-byte characters named in the source (a zero-width joiner, a replacement character, ...)
DictChars == {w \in DictTexts : Len(w) \in 2..4 /\ w[1] >= 194}
=============================================================================
