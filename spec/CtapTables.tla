----------------------------- MODULE CtapTables -----------------------------
(***************************************************************************)
(* The protocol tables, transcribed from the published specifications:     *)
(*   CTAP 2.1 PS (2021-06-15) sections 6.1-6.12, 8.1, 8.2; CTAP 2.2        *)
(*   additions (attestationFormatsPreference, epAtt / attStmt in           *)
(*   authenticatorGetAssertion, unsignedExtensionOutputs, authenticator-   *)
(*   GetInfo 0x16-0x18); WebAuthn L2 sections 5.4, 5.8, 6.1; RFC 8152      *)
(*   sections 7 and 13 (COSE keys).                                        *)
(* Capacities and the deliberately lossy members are the ones the crate    *)
(* documents (src/sizes.rs doc comments, CHANGELOG) and properties C12-C14 *)
(* state.  Nothing here is copied from the Rust declarations.              *)
(*                                                                         *)
(* F, the feature configuration, is a subset of                            *)
(*   {"get-info-full", "large-blobs", "third-party-payment"}.              *)
(***************************************************************************)
EXTENDS Cbor, Names

Features == {"get-info-full", "large-blobs", "third-party-payment"}
GIF == "get-info-full"
LB  == "large-blobs"
TPP == "third-party-payment"

(***************************************************************************)
(* Type descriptors                                                        *)
(***************************************************************************)
T_U8            == [t |-> "u8"]
T_U32           == [t |-> "u32"]
T_U64           == [t |-> "u64"]          \* usize members of GetInfo
T_I32           == [t |-> "i32"]
T_Bool          == [t |-> "bool"]
T_Unit          == [t |-> "unit"]          \* accepts null only (reserved keys)
T_Bytes(max)    == [t |-> "bytes", max |-> max]      \* max = -1: unbounded zero-copy borrow
T_BytesExact(n) == [t |-> "bytesExact", n |-> n]
T_Str(max)      == [t |-> "str", max |-> max]
T_StrTrunc(L)   == [t |-> "strTrunc", L |-> L]       \* lossy: cut on a character boundary; null = absent
T_StrSkip(L)    == [t |-> "strSkip", L |-> L]        \* lossy: dropped when longer than L; null is a type error
T_IconInner     == [t |-> "iconInner"]               \* lossy: any text, nothing stored
T_EnumU8(set)   == [t |-> "enumU8", set |-> set]
T_EnumStr(tab)  == [t |-> "enumStr", tab |-> tab]    \* tab: set of spellings (byte tuples)
T_Seq(e, max)   == [t |-> "seq", e |-> e, max |-> max]
T_Params        == [t |-> "params"]                  \* lossy: first two of public-key x {ES256, EdDSA}
T_Formats       == [t |-> "formats"]                 \* lossy: first two of {packed, none} + "others" flag
T_Struct(s)     == [t |-> "struct", s |-> s]         \* text-keyed map, unknown members skipped
T_Indexed(s)    == [t |-> "indexed", s |-> s]        \* integer-keyed map, strict
T_Cose(kind)    == [t |-> "cose", kind |-> kind]
T_Opt(inner)    == [t |-> "opt", i |-> inner]        \* optional member that tolerates null (= absent)
T_Some(inner)   == [t |-> "some", i |-> inner]       \* optional member that does not tolerate null
T_AttStmt       == [t |-> "attStmt"]                 \* {} ("none") or the packed statement; encode only
T_Empty         == [t |-> "empty"]                   \* a map without defined members

(***************************************************************************)
(* Identifier tables (C18) -- CTAP 2.1 sections 6.4, 6.5.5, 6.8, 12.1;     *)
(* WebAuthn section 8; U2F raw message formats section 5.1                 *)
(***************************************************************************)
VersionNames   == {N_FIDO_2_0, N_FIDO_2_1, N_FIDO_2_1_PRE, N_U2F_V2}
ExtensionNames == {N_credProtect, N_hmacSecret, N_largeBlobKey, N_thirdPartyPayment}
TransportNames == {N_nfc, N_usb}
FormatNames    == {N_none, N_packed}
PinSubcommands == {1, 2, 3, 4, 5, 6, 7, 9}
CmSubcommands  == 1..7
CredProtectPolicies == {1, 2, 3}
U2fControlBytes == {3, 7, 8}

\* pinUvAuthToken permission bits, CTAP 2.1 section 6.5.5.7
PermissionBits == [mc |-> 1, ga |-> 2, cm |-> 4, be |-> 8, lbw |-> 16, acfg |-> 32]

\* CTAP status codes, CTAP 2.1 section 8.2 (name |-> number)
StatusCode == [
  Success |-> 0, InvalidCommand |-> 1, InvalidParameter |-> 2, InvalidLength |-> 3, InvalidSeq |-> 4,
  Timeout |-> 5, ChannelBusy |-> 6, LockRequired |-> 10, InvalidChannel |-> 11,
  CborUnexpectedType |-> 17, InvalidCbor |-> 18, MissingParameter |-> 20, LimitExceeded |-> 21,
  UnsupportedExtension |-> 22, FingerprintDatabaseFull |-> 23, LargeBlobStorageFull |-> 24,
  CredentialExcluded |-> 25, Processing |-> 33, InvalidCredential |-> 34, UserActionPending |-> 35,
  OperationPending |-> 36, NoOperations |-> 37, UnsupportedAlgorithm |-> 38, OperationDenied |-> 39,
  KeyStoreFull |-> 40, NotBusy |-> 41, NoOperationPending |-> 42, UnsupportedOption |-> 43,
  InvalidOption |-> 44, KeepaliveCancel |-> 45, NoCredentials |-> 46, UserActionTimeout |-> 47,
  NotAllowed |-> 48, PinInvalid |-> 49, PinBlocked |-> 50, PinAuthInvalid |-> 51,
  PinAuthBlocked |-> 52, PinNotSet |-> 53, PinRequired |-> 54, PinPolicyViolation |-> 55,
  PinTokenExpired |-> 56, RequestTooLarge |-> 57, ActionTimeout |-> 58, UpRequired |-> 59,
  UvBlocked |-> 60, IntegrityFailure |-> 61, InvalidSubcommand |-> 62, UvInvalid |-> 63,
  UnauthorizedPermission |-> 64, Other |-> 127, SpecLast |-> 223, ExtensionFirst |-> 224,
  ExtensionLast |-> 239, VendorFirst |-> 240, VendorLast |-> 255 ]

ST_InvalidCommand   == 1
ST_InvalidCbor      == 18
ST_MissingParameter == 20
ST_Other            == 127

\* COSE algorithm identifiers (IANA COSE registry)
ALG_ES256 == -7
ALG_EdDSA == -8
KnownAlgs == {ALG_ES256, ALG_EdDSA}

(***************************************************************************)
(* Command bytes, CTAP 2.1 section 6 (and the two prototype codes)         *)
(*   kind: "params" (CBOR parameter map follows), "noparams", "vendor",    *)
(*         "unsupported" (assigned, not handled by this library),          *)
(*         "unassigned"                                                    *)
(***************************************************************************)
CommandTable == [c \in 0..255 |->
    CASE c = 1  -> [name |-> "MakeCredential",       kind |-> "params",   schema |-> "McReq"]
      [] c = 2  -> [name |-> "GetAssertion",         kind |-> "params",   schema |-> "GaReq"]
      [] c = 4  -> [name |-> "GetInfo",              kind |-> "noparams", schema |-> ""]
      [] c = 6  -> [name |-> "ClientPin",            kind |-> "params",   schema |-> "CpReq"]
      [] c = 7  -> [name |-> "Reset",                kind |-> "noparams", schema |-> ""]
      [] c = 8  -> [name |-> "GetNextAssertion",     kind |-> "noparams", schema |-> ""]
      [] c = 9  -> [name |-> "BioEnrollment",        kind |-> "unsupported", schema |-> ""]
      [] c = 10 -> [name |-> "CredentialManagement", kind |-> "params",   schema |-> "CmReq"]
      [] c = 11 -> [name |-> "Selection",            kind |-> "noparams", schema |-> ""]
      [] c = 12 -> [name |-> "LargeBlobs",           kind |-> "params",   schema |-> "LbReq"]
      [] c = 13 -> [name |-> "Config",               kind |-> "unsupported", schema |-> ""]
      [] c = 64 -> [name |-> "PreviewBioEnrollment", kind |-> "unsupported", schema |-> ""]
      [] c = 65 -> [name |-> "CredentialManagement", kind |-> "params",   schema |-> "CmReq"]   \* prototype code
      [] c >= 66 /\ c <= 127 -> [name |-> "Vendor",  kind |-> "vendor",   schema |-> ""]
      [] OTHER  -> [name |-> "",                     kind |-> "unassigned", schema |-> ""] ]

\* the operation a byte names (for the byte <-> operation round trip); 0x41 is its own
\* operation (prototype credential management) that decodes like 0x0A
OperationOf(c) ==
    IF c = 65 THEN "PreviewCredentialManagement"
    ELSE IF CommandTable[c].kind = "vendor" THEN "Vendor"
    ELSE CommandTable[c].name

Recognised(c) == CommandTable[c].kind # "unassigned"

(***************************************************************************)
(* Capacities (bytes / entries)                                            *)
(***************************************************************************)
AUTHENTICATOR_DATA_LENGTH == 676
ASN1_SIGNATURE_LENGTH     == 77
MAX_CREDENTIAL_ID_LENGTH  == 255
MAX_MESSAGE_SIZE          == 7609
LargeBlobMaxFragment(F)   == IF LB \in F THEN 3008 ELSE 0

(***************************************************************************)
(* Schemas.  A member is                                                   *)
(*   [key: CBOR value, alias: Seq(CBOR value), name: abstract member name, *)
(*    ty, req: BOOLEAN, feat: "" or the feature that brings it into being, *)
(*    ser: BOOLEAN (FALSE = accepted but never re-emitted)]                *)
(* For req = FALSE the decoded / encoded abstract value is an option       *)
(* (<<>> or <<v>>).                                                        *)
(***************************************************************************)
Mem(key, name, ty, req, feat) ==
    [key |-> key, alias |-> << >>, name |-> name, ty |-> ty, req |-> req, feat |-> feat, ser |-> TRUE]

\* integer-keyed
IR(k, name, ty)        == Mem(CU(k), name, ty, TRUE, "")
IO(k, name, ty)        == Mem(CU(k), name, T_Some(ty), FALSE, "")
IOF(k, name, ty, feat) == Mem(CU(k), name, T_Some(ty), FALSE, feat)
\* text-keyed
SR(n, name, ty)        == Mem(CText(n), name, ty, TRUE, "")
SO(n, name, ty)        == Mem(CText(n), name, T_Opt(ty), FALSE, "")
SOF(n, name, ty, feat) == Mem(CText(n), name, T_Opt(ty), FALSE, feat)
SN(n, name, ty)        == Mem(CText(n), name, T_Some(ty), FALSE, "")   \* optional, null not tolerated
SNF(n, name, ty, feat) == Mem(CText(n), name, T_Some(ty), FALSE, feat)
SD(n, name, ty)        == Mem(CText(n), name, ty, FALSE, "")           \* ty yields an option itself

SchemaNames == {"McReq", "GaReq", "CpReq", "CmReq", "CmParams", "LbReq",
                "Rp", "User", "DescRef", "Desc", "Param", "AuthOptions", "McExt", "GaExtIn",
                "HmacIn", "GaExtOut", "GetInfoResp", "GetInfoOptions", "Certifications",
                "McResp", "GaResp", "CpResp", "CmResp", "LbResp", "PackedStmt", "CallerExt", "CallerWide"}

\* "indexed" (integer keys, strict) or "struct" (text keys, unknown tolerated)
SchemaKind(s) ==
    IF s \in {"McReq", "GaReq", "CpReq", "CmReq", "CmParams", "LbReq", "HmacIn",
              "GetInfoResp", "McResp", "GaResp", "CpResp", "CmResp", "LbResp"}
    THEN "indexed" ELSE "struct"

DescRefSeq(max) == T_Seq(T_Struct("DescRef"), max)

WideNames == <<"k00", "k01", "k02", "k03", "k04", "k05", "k06", "k07", "k08", "k09", "k10", "k11", "k12", "k13", "k14", "k15",
               "k16", "k17", "k18", "k19", "k20", "k21", "k22", "k23">>
WideName(i) == WideNames[i]

SchemaRaw(s, F) ==
  CASE s = "McReq" -> <<                                      \* CTAP 2.1 6.1, 2.2 adds 0x0B
        IR(1,  "clientDataHash", T_Bytes(-1)),
        IR(2,  "rp", T_Struct("Rp")),
        IR(3,  "user", T_Struct("User")),
        IR(4,  "pubKeyCredParams", T_Params),
        IO(5,  "excludeList", DescRefSeq(16)),
        IO(6,  "extensions", T_Struct("McExt")),
        IO(7,  "options", T_Struct("AuthOptions")),
        IO(8,  "pinUvAuthParam", T_Bytes(-1)),
        IO(9,  "pinUvAuthProtocol", T_U32),
        IO(10, "enterpriseAttestation", T_U32),
        IO(11, "attestationFormatsPreference", T_Formats) >>
    [] s = "GaReq" -> <<                                      \* CTAP 2.1 6.2, 2.2 adds 0x08/0x09
        IR(1, "rpId", T_Str(-1)),
        IR(2, "clientDataHash", T_Bytes(-1)),
        IO(3, "allowList", DescRefSeq(10)),
        IO(4, "extensions", T_Struct("GaExtIn")),
        IO(5, "options", T_Struct("AuthOptions")),
        IO(6, "pinUvAuthParam", T_Bytes(-1)),
        IO(7, "pinUvAuthProtocol", T_U32),
        IO(8, "enterpriseAttestation", T_U32),
        IO(9, "attestationFormatsPreference", T_Formats) >>
    [] s = "CpReq" -> <<                                      \* CTAP 2.1 6.5.5
        IR(1,  "pinUvAuthProtocol", T_U8),
        IR(2,  "subCommand", T_EnumU8(PinSubcommands)),
        IO(3,  "keyAgreement", T_Cose("ecdh")),
        IO(4,  "pinUvAuthParam", T_Bytes(-1)),
        IO(5,  "newPinEnc", T_Bytes(-1)),
        IO(6,  "pinHashEnc", T_Bytes(-1)),
        IO(7,  "reserved7", T_Unit),
        IO(8,  "reserved8", T_Unit),
        IO(9,  "permissions", T_U8),
        IO(10, "rpId", T_Str(-1)) >>
    [] s = "CmReq" -> <<                                      \* CTAP 2.1 6.8
        IR(1, "subCommand", T_EnumU8(CmSubcommands)),
        IO(2, "subCommandParams", T_Indexed("CmParams")),
        IO(3, "pinUvAuthProtocol", T_U8),
        IO(4, "pinUvAuthParam", T_Bytes(-1)) >>
    [] s = "CmParams" -> <<
        IO(1, "rpIDHash", T_BytesExact(32)),
        IO(2, "credentialID", T_Struct("DescRef")),
        IO(3, "user", T_Struct("User")) >>
    [] s = "LbReq" -> <<                                      \* CTAP 2.1 6.10
        IO(1, "get", T_U32),
        IO(2, "set", T_Bytes(-1)),
        IR(3, "offset", T_U32),
        IO(4, "length", T_U32),
        IO(5, "pinUvAuthParam", T_Bytes(-1)),
        IO(6, "pinUvAuthProtocol", T_U32) >>
    [] s = "Rp" -> <<                                         \* WebAuthn 5.4.2 (+ legacy icon / url)
        SR(N_id, "id", T_Str(256)),
        SD(N_name, "name", T_StrTrunc(64)),
        [SO(N_icon, "icon", T_IconInner) EXCEPT !.alias = <<CText(N_url)>>, !.ser = FALSE] >>
    [] s = "User" -> <<                                       \* WebAuthn 5.4.3 (+ legacy icon)
        SR(N_id, "id", T_Bytes(64)),
        SD(N_icon, "icon", T_StrSkip(128)),
        SD(N_name, "name", T_StrTrunc(64)),
        SD(N_displayName, "displayName", T_StrTrunc(64)) >>
    [] s = "DescRef" -> <<                                    \* WebAuthn 5.8.3, zero-copy (requests)
        SR(N_id, "id", T_Bytes(-1)),
        SR(N_type, "type", T_Str(-1)) >>
    [] s = "Desc" -> <<                                       \* owned (responses)
        SR(N_id, "id", T_Bytes(MAX_CREDENTIAL_ID_LENGTH)),
        SR(N_type, "type", T_Str(32)) >>
    [] s = "Param" -> <<                                      \* WebAuthn 5.3
        SR(N_alg, "alg", T_I32),
        SR(N_type, "type", T_Str(32)) >>
    [] s = "AuthOptions" -> <<                                \* CTAP 2.1 6.1 / 6.2 options
        SO(N_rk, "rk", T_Bool), SO(N_up, "up", T_Bool), SO(N_uv, "uv", T_Bool) >>
    [] s = "McExt" -> <<                                      \* CTAP 2.1 12.1, 12.3, 12.5; 2.2 thirdPartyPayment
        SO(N_credProtect, "credProtect", T_U8),
        SO(N_hmacSecret, "hmacSecret", T_Bool),
        SO(N_largeBlobKey, "largeBlobKey", T_Bool),
        SOF(N_thirdPartyPayment, "thirdPartyPayment", T_Bool, TPP) >>
    [] s = "GaExtIn" -> <<
        SO(N_hmacSecret, "hmacSecret", T_Indexed("HmacIn")),
        SO(N_largeBlobKey, "largeBlobKey", T_Bool),
        SOF(N_thirdPartyPayment, "thirdPartyPayment", T_Bool, TPP) >>
    [] s = "HmacIn" -> <<                                     \* CTAP 2.1 12.5
        IR(1, "keyAgreement", T_Cose("ecdh")),
        IR(2, "saltEnc", T_Bytes(80)),
        IR(3, "saltAuth", T_Bytes(32)),
        IO(4, "pinUvAuthProtocol", T_U32) >>
    [] s = "GaExtOut" -> <<
        SO(N_hmacSecret, "hmacSecret", T_Bytes(80)),
        SOF(N_thirdPartyPayment, "thirdPartyPayment", T_Bool, TPP) >>
    \* not a type of the crate: an extension-output type as a CALLER may define one (the
    \* authenticator-data type is generic in it); the harness defines it the same way
    \* a caller-defined extension-output type with MANY members (a map head beyond 0xB7 / 0xB8)
    [] s = "CallerWide" -> [i \in 1..24 |-> SO(<<107, 48 + ((i - 1) \div 10), 48 + ((i - 1) % 10)>>, WideName(i), T_U8)]
    [] s = "CallerExt" -> <<
        SO(N_credBlob, "credBlob", T_Bytes(400)),
        SO(N_hmacSecret, "hmacSecret", T_Bytes(400)) >>
    [] s = "GetInfoResp" -> <<                                \* CTAP 2.1 6.4, 2.2 adds 0x16-0x18
        IR(1,  "versions", T_Seq(T_EnumStr(VersionNames), 4)),
        IO(2,  "extensions", T_Seq(T_EnumStr(ExtensionNames), 4)),
        IR(3,  "aaguid", T_Bytes(16)),
        IO(4,  "options", T_Struct("GetInfoOptions")),
        IO(5,  "maxMsgSize", T_U64),
        IO(6,  "pinUvAuthProtocols", T_Seq(T_U8, 2)),
        IO(7,  "maxCredentialCountInList", T_U64),
        IO(8,  "maxCredentialIdLength", T_U64),
        IO(9,  "transports", T_Seq(T_EnumStr(TransportNames), 4)),
        IO(10, "algorithms", T_Params),
        IO(11, "maxSerializedLargeBlobArray", T_U64),
        IOF(12, "forcePINChange", T_Bool, GIF),
        IOF(13, "minPINLength", T_U64, GIF),
        IOF(14, "firmwareVersion", T_U64, GIF),
        IOF(15, "maxCredBlobLength", T_U64, GIF),
        IOF(16, "maxRPIDsForSetMinPINLength", T_U64, GIF),
        IOF(17, "preferredPlatformUvAttempts", T_U64, GIF),
        IOF(18, "uvModality", T_U64, GIF),
        IOF(19, "certifications", T_Struct("Certifications"), GIF),
        IOF(20, "remainingDiscoverableCredentials", T_U64, GIF),
        IOF(21, "vendorPrototypeConfigCommands", T_U64, GIF),
        IOF(22, "attestationFormats", T_Seq(T_EnumStr(FormatNames), 2), GIF),
        IOF(23, "uvCountSinceLastPinEntry", T_U64, GIF),
        IOF(24, "longTouchForReset", T_Bool, GIF) >>
    [] s = "GetInfoOptions" -> <<                             \* CTAP 2.1 6.4 option IDs
        SOF(N_ep, "ep", T_Bool, GIF),
        SR(N_rk, "rk", T_Bool),
        SR(N_up, "up", T_Bool),
        SO(N_uv, "uv", T_Bool),
        SO(N_plat, "plat", T_Bool),
        SOF(N_uvAcfg, "uvAcfg", T_Bool, GIF),
        SOF(N_alwaysUv, "alwaysUv", T_Bool, GIF),
        SO(N_credMgmt, "credMgmt", T_Bool),
        SOF(N_authnrCfg, "authnrCfg", T_Bool, GIF),
        SOF(N_bioEnroll, "bioEnroll", T_Bool, GIF),
        SO(N_clientPin, "clientPin", T_Bool),
        SO(N_largeBlobs, "largeBlobs", T_Bool),
        SOF(N_uvBioEnroll, "uvBioEnroll", T_Bool, GIF),
        SO(N_pinUvAuthToken, "pinUvAuthToken", T_Bool),
        SOF(N_setMinPINLength, "setMinPINLength", T_Bool, GIF),
        SOF(N_makeCredUvNotRqd, "makeCredUvNotRqd", T_Bool, GIF),
        SOF(N_credentialMgmtPreview, "credentialMgmtPreview", T_Bool, GIF),
        SOF(N_userVerificationMgmtPreview, "userVerificationMgmtPreview", T_Bool, GIF),
        SOF(N_noMcGaPermissionsWithClientPin, "noMcGaPermissionsWithClientPin", T_Bool, GIF) >>
    [] s = "Certifications" -> <<                             \* CTAP 2.1 7.3
        SO(N_certFIDO, "FIDO", T_U8),
        SO(N_certCCEAL, "CC_EAL", T_U8),
        SO(N_certFIPS2, "FIPS_CMVP_2", T_U8),
        SO(N_certFIPS3, "FIPS_CMVP_3", T_U8),
        SO(N_certFIPS2PHY, "FIPS_CMVP_2_PHY", T_U8),
        SO(N_certFIPS3PHY, "FIPS_CMVP_3_PHY", T_U8) >>
    [] s = "McResp" -> <<                                     \* CTAP 2.1 6.1.2, 2.2 adds 0x06
        IR(1, "fmt", T_EnumStr(FormatNames)),
        IR(2, "authData", T_Bytes(AUTHENTICATOR_DATA_LENGTH)),
        IO(3, "attStmt", T_AttStmt),
        IO(4, "epAtt", T_Bool),
        IO(5, "largeBlobKey", T_BytesExact(32)),
        IO(6, "unsignedExtensionOutputs", T_Empty) >>
    [] s = "GaResp" -> <<                                     \* CTAP 2.1 6.2.2, 2.2 adds 0x08-0x0A
        IR(1,  "credential", T_Struct("Desc")),
        IR(2,  "authData", T_Bytes(AUTHENTICATOR_DATA_LENGTH)),
        IR(3,  "signature", T_Bytes(ASN1_SIGNATURE_LENGTH)),
        IO(4,  "user", T_Struct("User")),
        IO(5,  "numberOfCredentials", T_U32),
        IO(6,  "userSelected", T_Bool),
        IO(7,  "largeBlobKey", T_BytesExact(32)),
        IO(8,  "unsignedExtensionOutputs", T_Empty),
        IO(9,  "epAtt", T_Bool),
        IO(10, "attStmt", T_AttStmt) >>
    [] s = "CpResp" -> <<                                     \* CTAP 2.1 6.5.5
        IO(1, "keyAgreement", T_Cose("ecdh")),
        IO(2, "pinUvAuthToken", T_Bytes(48)),
        IO(3, "pinRetries", T_U8),
        IO(4, "powerCycleState", T_Bool),
        IO(5, "uvRetries", T_U8) >>
    [] s = "CmResp" -> <<                                     \* CTAP 2.1 6.8, 2.2 adds 0x0C
        IO(1,  "existingResidentCredentialsCount", T_U32),
        IO(2,  "maxPossibleRemainingResidentCredentialsCount", T_U32),
        IO(3,  "rp", T_Struct("Rp")),
        IO(4,  "rpIDHash", T_BytesExact(32)),
        IO(5,  "totalRPs", T_U32),
        IO(6,  "user", T_Struct("User")),
        IO(7,  "credentialID", T_Struct("Desc")),
        IO(8,  "publicKey", T_Cose("any")),
        IO(9,  "totalCredentials", T_U32),
        IO(10, "credProtect", T_EnumU8(CredProtectPolicies)),
        IO(11, "largeBlobKey", T_BytesExact(32)),
        IOF(12, "thirdPartyPayment", T_Bool, TPP) >>
    [] s = "LbResp" -> <<                                     \* CTAP 2.1 6.10
        IO(1, "config", T_Bytes(LargeBlobMaxFragment(F))) >>
    [] s = "PackedStmt" -> <<                                 \* WebAuthn 8.2
        SR(N_alg, "alg", T_I32),
        SR(N_sig, "sig", T_Bytes(ASN1_SIGNATURE_LENGTH)),
        SN(N_x5c, "x5c", T_Seq(T_Bytes(1024), 1)) >>

\* The tables are looked up very often by the codec; they are computed once per configuration
\* (TLC evaluates constant definitions a single time).
AllConfigs == SUBSET Features
SchemaTab  == [ff \in AllConfigs |-> [s \in SchemaNames |-> SchemaRaw(s, ff)]]
Schema(s, F) == SchemaTab[F][s]

\* members that exist in configuration F
MembersTab == [ff \in AllConfigs |-> [s \in SchemaNames |->
                  SelectSeq(SchemaTab[ff][s], LAMBDA m : m.feat = "" \/ m.feat \in ff)]]
Members(s, F) == MembersTab[F][s]

\* all member names of a schema regardless of configuration (fixed record shape)
AllNamesTab == [s \in SchemaNames |-> LET all == SchemaTab[Features][s] IN {all[i].name : i \in 1..Len(all)}]
AllNames(s) == AllNamesTab[s]

MemberByNameTab == [s \in SchemaNames |-> [nm \in AllNamesTab[s] |->
                       LET ms == SchemaTab[Features][s] IN ms[CHOOSE i \in 1..Len(ms) : ms[i].name = nm]]]
MemberByName(s, F, nm) == MemberByNameTab[s][nm]

\* response kind -> schema
RespSchema(kind) ==
    CASE kind = "GetInfo" -> "GetInfoResp" [] kind = "MakeCredential" -> "McResp"
      [] kind = "GetAssertion" -> "GaResp" [] kind = "GetNextAssertion" -> "GaResp"
      [] kind = "ClientPin" -> "CpResp" [] kind = "CredentialManagement" -> "CmResp"
      [] kind = "LargeBlobs" -> "LbResp" [] OTHER -> ""

BodylessResponses == {"Reset", "Selection", "Vendor"}
ResponseKinds == {"GetInfo", "MakeCredential", "GetAssertion", "GetNextAssertion", "ClientPin",
                  "CredentialManagement", "LargeBlobs"} \cup BodylessResponses

(***************************************************************************)
(* COSE keys (RFC 8152 section 7, 13; labels 1 kty, 3 alg, -1 crv, -2 x,   *)
(* -3 y).  kind |-> constants                                              *)
(***************************************************************************)
CoseKinds == {"p256", "ecdh", "ed25519", "totp"}
CoseConst(kind) ==
    CASE kind = "p256"    -> [kty |-> 2, alg |-> -7,  crv |-> 1, hasCrv |-> TRUE,  hasX |-> TRUE,  hasY |-> TRUE]
      [] kind = "ecdh"    -> [kty |-> 2, alg |-> -25, crv |-> 1, hasCrv |-> TRUE,  hasX |-> TRUE,  hasY |-> TRUE]
      [] kind = "ed25519" -> [kty |-> 1, alg |-> -8,  crv |-> 6, hasCrv |-> TRUE,  hasX |-> TRUE,  hasY |-> FALSE]
      [] kind = "totp"    -> [kty |-> 4, alg |-> -9,  crv |-> 0, hasCrv |-> FALSE, hasX |-> FALSE, hasY |-> FALSE]
CoseKtyValues == {1, 2, 4}
CoseAlgValues == {-7, -8, -9, -25}
CoseCrvValues == {0, 1, 4, 6}

=============================================================================
