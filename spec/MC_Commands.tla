----------------------------- MODULE MC_Commands -----------------------------
(* Scenario: all 256 command bytes x payload classes; the byte <-> operation  *)
(* tables.  C11 (and the command row of C05).  Complete on both sides.        *)
EXTENDS Ctap, Gen, Lattice

ValidPayload(c) == Enc(ToTree(T_Indexed(CommandTable[c].schema), ReqMin(c), F, TRUE))

Payloads(c) ==
    {<< >>, <<255>>, <<162, 1>>, <<160>>, <<0>>, <<246>>,
     ValidPayload(6),                               \* a valid payload of another command
     Pattern(c, 9), Pattern(c + 1, 33), Rep(c, 4), <<191, 255>>, <<130, 1, 2>>}
    \cup (IF CommandTable[c].kind = "params" THEN {ValidPayload(c)} ELSE {})

CommandCases ==
    UNION {{[op |-> "decode2", tag |-> "command-byte", c |-> c, sv |-> << >>, wire |-> <<c>> \o p]
            @@ (IF CommandTable[c].kind \in {"unassigned", "unsupported"} THEN [fault |-> "command"] ELSE << >>)
            : p \in Payloads(c)} : c \in 0..255}

\* a command that takes no parameters ignores whatever follows it, however much of it there is
\* (and an unassigned byte stays InvalidCommand): payloads around and past the largest message
LongPayloadCases ==
    {[op |-> "decode2", tag |-> "command-long-payload", c |-> c, sv |-> << >>, wire |-> <<c>> \o Rep(fill, n)]
     @@ (IF CommandTable[c].kind \in {"unassigned", "unsupported"} THEN [fault |-> "command"] ELSE << >>)
        : c \in {0, 4, 7, 8, 9, 11, 13, 64, 66, 127, 128, 255}, fill \in {0, 160}, n \in {1023, 1024, 7607, 7608, 7609, 7610, 20000, 65534, 65535, 65536, 65537}}

\* the commands CTAP 2.1 defines and this library does NOT support (bioEnrollment 0x09,
\* authenticatorConfig 0x0D, the bio prototype 0x40) followed by bodies of the shape the standard
\* gives them -- sub-command, parameters, protocol, authentication -- stay InvalidCommand; so do the
\* unassigned bytes followed by the same bodies and by valid bodies of the supported commands
ConfigParams == {CMap(<< >>)} \cup {CMap(<< <<CU(1), CU(n)>> >>) : n \in {0, 4, 65, 66, 127, 128}}
                \cup {CMap(<< <<CU(1), CU(4)>>, <<CU(2), CArr(<<CText(AsciiPattern(9, 11))>>)>>, <<CU(3), CBool(TRUE)>> >>)}
SpecBodies ==
    {Enc(CMap(<< <<CU(1), CU(sc)>> >>)) : sc \in {1, 2, 3, 255}}
    \cup {Enc(CMap(<< <<CU(1), CU(sc)>>, <<CU(2), p>> >>)) : sc \in {1, 2, 3, 255}, p \in ConfigParams}
    \cup {Enc(CMap(<< <<CU(1), CU(sc)>>, <<CU(2), p>>, <<CU(3), CU(2)>>, <<CU(4), CBytes(Pattern(3, 32))>> >>)) : sc \in {3, 255}, p \in ConfigParams}
    \cup {Enc(CMap(<< <<CU(1), CU(1)>>, <<CU(2), CU(sc)>> >>)) : sc \in 1..7}                        \* bioEnrollment: modality, sub-command
    \cup {Enc(CMap(<< <<CU(6), CBool(TRUE)>> >>))}                                                   \* bioEnrollment: getModality
    \cup {ValidPayload(c) : c \in {1, 2, 6, 10, 12}}
\* whatever follows a command that takes no parameters is ignored, however deeply it nests
RECURSIVE Nest(_, _)
Nest(d, inner) == IF d = 0 THEN inner ELSE IF d % 2 = 0 THEN CArr(<<Nest(d - 1, inner)>>) ELSE CMap(<< <<CU(1), Nest(d - 1, inner)>> >>)
DeepBodies == {Enc(Nest(d, CU(0))) : d \in {1, 7, 8, 9, 10, 16, 32, 64}} \cup {Rep(129, d) \o <<0>> : d \in {8, 9, 10, 33}}
              \cup {Enc(CTag(BN(1), Nest(9, CNull)))}
DeepBodyCases ==
    {[op |-> "decode2", tag |-> "command-deep-body", c |-> c, sv |-> << >>, wire |-> <<c>> \o b]
     @@ (IF CommandTable[c].kind \in {"unassigned", "unsupported"} THEN [fault |-> "command"] ELSE << >>)
        : c \in {0, 4, 7, 8, 9, 11, 13, 64, 66, 127, 128, 255}, b \in DeepBodies}

SpecBodyCases ==
    {[op |-> "decode2", tag |-> "command-spec-body", c |-> c, sv |-> << >>, wire |-> <<c>> \o b, fault |-> "command"] :
        c \in {0, 3, 5, 9, 13, 14, 64, 128, 255}, b \in SpecBodies}

\* the prototype credential-management code must decode EXACTLY like 0x0A: every sub-command,
\* every subset of parameters, faulty payloads too
CmPayloads ==
    {Enc(ToTree(T_Indexed("CmReq"), sv, F, TRUE)) :
        sv \in SubsetsOf(CmReqMin, CmReqOptVals) \cup {[CmReqMin EXCEPT !.subCommand = n] : n \in CmSubcommands}
               \cup {[ReqFull(10, F) EXCEPT !.subCommand = n] : n \in CmSubcommands}}
    \cup {Enc(CMap(<< <<CU(1), CU(n)>> >>)) : n \in {0, 8, 9, 23, 24, 255}}
    \cup {Enc(CMap(<< <<CU(2), CMap(<< >>)>> >>)), Enc(CMap(<< <<CU(1), CU(7)>>, <<CU(2), CMap(<< <<CU(3), CMap(<< >>)>> >>)>> >>))}
\* ... and every member over the lattice of its type, every pair at the extremes (protocol 2, every
\* sub-command with every parameter shape, ...)
CmLatticePayloads ==
    {Enc(ToTree(T_Indexed("CmReq"), sv, F, TRUE)) : sv \in OneAtATime("CmReq", F, TRUE) \cup TwoAtATime("CmReq", F, TRUE)}
PrototypeCases ==
    {[op |-> "decode2", tag |-> "prototype-code", c |-> c, sv |-> << >>, wire |-> <<c>> \o p] : c \in {10, 65}, p \in CmPayloads \cup CmLatticePayloads}

TableCases == {[op |-> "optable", tag |-> "optable", c |-> c] : c \in 0..255}

MC_Cases == CommandCases \cup TableCases \cup PrototypeCases \cup LongPayloadCases \cup SpecBodyCases \cup DeepBodyCases

(***************************************************************************)
(* C11 on the model                                                        *)
(***************************************************************************)
AssignedCodes == {1, 2, 4, 6, 7, 8, 9, 10, 11, 12, 13, 64, 65}       \* CTAP 2.1 section 6 + prototype codes
OpId(c) == IF CommandTable[c].kind = "vendor" THEN <<"Vendor", c>> ELSE <<OperationOf(c), 0>>

ASSUME CommandTableExact ==
    /\ {c \in 0..255 : Recognised(c) /\ CommandTable[c].kind # "vendor"} = AssignedCodes
    /\ {c \in 0..255 : CommandTable[c].kind = "vendor"} = (64..127) \ {64, 65}
ASSUME CommandTableInjective ==
    \A c1, c2 \in {c \in 0..255 : Recognised(c)} : OpId(c1) = OpId(c2) => c1 = c2

CommandTableTotal ==
    phase = "decoded" /\ case.op = "decode2" =>
        LET c == wire[1]
            k == CommandTable[c].kind
        IN  /\ (k \in {"unassigned", "unsupported"} =>
                    ~req.ok /\ req.status = ST_InvalidCommand)
            /\ (k = "noparams" => req.ok /\ req.cmd = CommandTable[c].name /\ req.v = << >>)
            /\ (k = "vendor" => req.ok /\ req.cmd = "Vendor" /\ req.code = c)
            /\ (c = 65 => req = Model_decode2(<<10>> \o Tail(wire)))
            /\ (k = "params" /\ Tail(wire) = ValidPayload(c) => req.ok /\ req.cmd = CommandTable[c].name)
=============================================================================
