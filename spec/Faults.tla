-------------------------------- MODULE Faults --------------------------------
(***************************************************************************)
(* Fault injection on well-formed requests (C05), on the CBOR TREE of a    *)
(* seed message: every single fault of each kind the property names, at    *)
(* every position.  The expected status of a fault comes from the          *)
(* property's three-row table (ExpectedStatus), NOT from the decoder.      *)
(*                                                                         *)
(* A position in a tree is a path: a sequence of steps; in an array step i *)
(* is element i; in a map step 2i-1 is the key and 2i the value of entry i.*)
(***************************************************************************)
EXTENDS CtapCodec

NChildren(v) == IF v.k = "array" THEN Len(v.a) ELSE IF v.k = "map" THEN 2 * Len(v.m) ELSE 0
Child(v, s)  == IF v.k = "array" THEN v.a[s] ELSE v.m[(s + 1) \div 2][IF s % 2 = 1 THEN 1 ELSE 2]

RECURSIVE Paths(_), At(_, _), Put(_, _, _)
Paths(v) == {<< >>} \cup UNION {{<<s>> \o p : p \in Paths(Child(v, s))} : s \in 1..NChildren(v)}

At(v, p) == IF p = << >> THEN v ELSE At(Child(v, p[1]), Tail(p))

Put(v, p, x) ==
    IF p = << >> THEN x
    ELSE LET s == p[1] IN
         IF v.k = "array" THEN CArr([v.a EXCEPT ![s] = Put(v.a[s], Tail(p), x)])
         ELSE LET i == (s + 1) \div 2
                  j == IF s % 2 = 1 THEN 1 ELSE 2
              IN  CMap([v.m EXCEPT ![i] = [v.m[i] EXCEPT ![j] = Put(v.m[i][j], Tail(p), x)]])

IsKeyPath(p)   == p # << >> /\ p[Len(p)] % 2 = 1      \* only meaningful below a map
RemoveAt(s, i) == SubSeq(s, 1, i - 1) \o SubSeq(s, i + 1, Len(s))
InsertAt(s, i, x) == SubSeq(s, 1, i) \o <<x>> \o SubSeq(s, i + 1, Len(s))      \* after position i

(***************************************************************************)
(* Typed walk: where the maps of known schemas sit in the tree             *)
(***************************************************************************)
RECURSIVE MapsIn(_, _, _, _)
\* set of [p: path of the map node, s: schema name or "COSE"]
MapsIn(ty, v, path, F) ==
    CASE ty.t \in {"struct", "indexed"} ->
            {[p |-> path, s |-> ty.s]} \cup
            UNION {LET ms  == Members(ty.s, F)
                       idx == FindIdx(ms, LAMBDA m : m.key = v.m[i][1] \/ \E a \in 1..Len(m.alias) : m.alias[a] = v.m[i][1])
                   IN  IF idx = 0 THEN {} ELSE MapsIn(InnerTy(ms[idx].ty), v.m[i][2], path \o <<2 * i>>, F)
                   : i \in 1..Len(v.m)}
      [] ty.t = "seq"    -> UNION {MapsIn(ty.e, v.a[i], path \o <<i>>, F) : i \in 1..Len(v.a)}
      [] ty.t = "params" -> UNION {MapsIn(T_Struct("Param"), v.a[i], path \o <<i>>, F) : i \in 1..Len(v.a)}
      [] ty.t = "cose"   -> {[p |-> path, s |-> "COSE"]}
      [] ty.t \in {"opt", "some"} -> MapsIn(ty.i, v, path, F)
      [] OTHER -> {}

\* keys of the required members of a schema (from the tables)
RequiredKeys(s, F) ==
    IF s = "COSE" THEN {CInt(1), CInt(-1), CInt(-2), CInt(-3)}
    ELSE LET ms == Members(s, F) IN {ms[i].key : i \in {j \in 1..Len(ms) : ms[j].req}}

(***************************************************************************)
(* Fault generators.  Each yields records [kind, tree] or [kind, bytes].   *)
(***************************************************************************)
WidthsAbove(arg) == {w \in {1, 2, 4, 8} : w > MinWidth(arg) /\ w >= Len(arg)}

Headed(v) == v.k \in {"uint", "nint", "bytes", "text", "array", "map"}

WideFaults(tree) ==
    UNION {{[kind |-> "non-minimal", tree |-> Put(tree, p, CWide(At(tree, p), w))] :
               w \in IF Headed(At(tree, p)) THEN WidthsAbove(ArgOf(At(tree, p))) ELSE {}} : p \in Paths(tree)}

IndefFaults(tree) ==
    {[kind |-> "indefinite", tree |-> Put(tree, p, CIndef(At(tree, p)))] :
        p \in {q \in Paths(tree) : At(tree, q).k \in {"bytes", "text", "array", "map"}}}

\* a representative of every data type
TypeReps == {CU(7), CInt(-3), CBytes(<<1, 2>>), CText(<<97>>), CArr(<< >>), CMap(<< >>), CBool(TRUE)}
TypeClass(v) == IF v.k \in {"uint", "nint"} THEN "int" ELSE v.k     \* sign changes are excluded by the property

\* value positions: everything except map keys (and the top node counts as a value)
WrongTypeFaults(tree) ==
    UNION {{[kind |-> "wrong-type", tree |-> Put(tree, p, r)] :
               r \in {x \in TypeReps : TypeClass(x) # TypeClass(At(tree, p))}}
           : p \in {q \in Paths(tree) : ~IsKeyPath(q)}}

RemoveRequiredFaults(ty, tree, F) ==
    UNION {LET mp == At(tree, m.p) IN
           {[kind |-> "missing", tree |-> Put(tree, m.p, CMap(RemoveAt(mp.m, i)))] :
               i \in {j \in 1..Len(mp.m) : mp.m[j][1] \in RequiredKeys(m.s, F)}}
           : m \in MapsIn(ty, tree, << >>, F)}

DuplicateFaults(ty, tree, F) ==
    UNION {LET mp == At(tree, m.p) IN
           {[kind |-> "duplicate", tree |-> Put(tree, m.p, CMap(InsertAt(mp.m, i, mp.m[i])))] : i \in 1..Len(mp.m)}
           \cup {[kind |-> "duplicate", tree |-> Put(tree, m.p, CMap(Append(mp.m, mp.m[i])))] : i \in 1..Len(mp.m)}
           : m \in MapsIn(ty, tree, << >>, F)}

\* truncation works on bytes: every proper prefix, including the empty message
TruncationFaults(wire) == {[kind |-> "truncated", bytes |-> SubSeq(wire, 1, k)] : k \in 0..(Len(wire) - 1)}

\* the property's table: kind of fault -> status
ExpectedStatus(kind) ==
    CASE kind = "command" -> ST_InvalidCommand
      [] kind = "missing" -> ST_MissingParameter
      [] kind \in {"truncated", "empty", "duplicate", "non-minimal", "indefinite", "wrong-type", "over-limit",
                   "malformed"} -> ST_InvalidCbor

=============================================================================
