---------------------------- MODULE MC_Requests -----------------------------
(* Scenario: every subset of optional parameters of every parameter-bearing   *)
(* command, every subset of the optional members of each nested map.  C01.    *)
EXTENDS Ctap, Gen, Lattice, Faults

TopSubsets ==
    UNION {{SentCase(c, sv, "top-subset", F) : sv \in SubsetsOf(ReqMin(c), ReqOptVals(c, F))} : c \in ParamCommands}

NestedSubsets ==
    {SentCase(1, [McReqMin EXCEPT !.rp = r], "rp-subset", F) : r \in SubsetsOf(RpMin, RpOptVals)}
    \cup {SentCase(1, [McReqMin EXCEPT !.user = u], "user-subset", F) : u \in SubsetsOf(UserMin, UserOptVals)}
    \cup {SentCase(1, [McReqMin EXCEPT !.options = <<o>>], "options-subset", F) : o \in SubsetsOf(AuthOptsMin, AuthOptsOptVals)}
    \cup {SentCase(2, [GaReqMin EXCEPT !.options = <<o>>], "options-subset", F) : o \in SubsetsOf(AuthOptsMin, AuthOptsOptVals)}
    \cup {SentCase(1, [McReqMin EXCEPT !.extensions = <<e>>], "mcext-subset", F) : e \in SubsetsOf(McExtMin, McExtOptVals(F))}
    \cup {SentCase(2, [GaReqMin EXCEPT !.extensions = <<e>>], "gaext-subset", F) : e \in SubsetsOf(GaExtInMin, GaExtInOptVals(F))}
    \cup {SentCase(2, [GaReqMin EXCEPT !.extensions = <<[GaExtInMin EXCEPT !.hmacSecret = <<h>>]>>], "hmac-subset", F) :
              h \in {HmacInMin, HmacInFull}}
    \cup {SentCase(c, [CmReqMin EXCEPT !.subCommandParams = <<p>>], "cmparams-subset", F) :
              p \in SubsetsOf(CmParamsMin, CmParamsOptVals), c \in {10, 65}}
    \cup {SentCase(10, [CmReqMin EXCEPT !.subCommandParams = <<[CmParamsMin EXCEPT !.user = <<u>>]>>], "cm-user-subset", F) :
              u \in SubsetsOf(UserMin, UserOptVals)}

\* every (top-level optional parameter present) x (nested map full) pair is covered by the full request
FullRequests == {SentCase(c, ReqFull(c, F), "full", F) : c \in ParamCommands} \cup {SentCase(1, ReqRich(1, F), "rich", F)}

\* enumerations inside requests: every sub-command
SubCommands ==
    {SentCase(6, [CpReqMin EXCEPT !.subCommand = n], "pin-subcommand", F) : n \in PinSubcommands}
    \cup {SentCase(10, [CmReqMin EXCEPT !.subCommand = n], "cm-subcommand", F) : n \in CmSubcommands}

\* the platform's order of preference among the algorithms is part of the value
ParamOrders ==
    {SentCase(1, [ReqFull(1, F) EXCEPT !.pubKeyCredParams = l], "param-order", F) :
        l \in {<<ParamOf(ALG_EdDSA), ParamOf(ALG_ES256)>>, <<ParamOf(ALG_ES256), ParamOf(ALG_EdDSA)>>,
                <<ParamOf(-257), ParamOf(ALG_EdDSA), ParamOf(-37), ParamOf(ALG_ES256), ParamOf(ALG_ES256)>>,
                <<ParamOf(ALG_EdDSA), ParamOf(ALG_EdDSA), ParamOf(ALG_ES256)>>, <<ParamOf(-257)>>}}
    \cup {SentCase(c, [ReqFull(c, F) EXCEPT !.attestationFormatsPreference = <<l>>], "format-order", F) :
        c \in {1, 2}, l \in {<<N_none, N_packed>>, <<N_packed, N_none>>, <<N_tpm, N_none, N_tpm, N_packed, N_none>>}}

\* every member of every request (nested ones too), one at a time, over the lattice of its TYPE
ValueLattice ==
    UNION {{SentCase(c, sv, "value-lattice", F) : sv \in OneAtATime(CommandTable[c].schema, F, TRUE)} : c \in {1, 2, 6, 10, 12}}

\* every PAIR of parameters at every combination of the extremes of their types
PairLattice ==
    UNION {{SentCase(c, sv, "pair-lattice", F) : sv \in TwoAtATime(CommandTable[c].schema, F, TRUE)} : c \in {1, 2, 6, 10, 12}}
    \cup {SentCase(10, [CmReqMin EXCEPT !.subCommandParams = <<p>>], "pair-lattice-nested", F) : p \in TwoAtATime("CmParams", F, TRUE)}
    \cup {SentCase(1, [McReqMin EXCEPT !.user = u], "pair-lattice-nested", F) : u \in TwoAtATime("User", F, TRUE) \cup RelatedPairs("User", F, TRUE)}
    \cup {SentCase(1, [McReqMin EXCEPT !.rp = r], "pair-lattice-nested", F) : r \in RelatedPairs("Rp", F, TRUE)}
    \cup {SentCase(1, [McReqMin EXCEPT !.extensions = <<e>>], "pair-lattice-nested", F) : e \in TwoAtATime("McExt", F, TRUE)}
    \cup {SentCase(2, [GaReqMin EXCEPT !.extensions = <<e>>], "pair-lattice-nested", F) : e \in TwoAtATime("GaExtIn", F, TRUE)}
    \cup {SentCase(1, [McReqMin EXCEPT !.options = <<o>>, !.extensions = <<e>>], "pair-lattice-nested", F) :
             o \in {AuthOptsFull, [rk |-> <<FALSE>>, up |-> <<TRUE>>, uv |-> <<FALSE>>]}, e \in {x \in TwoAtATime("McExt", F, TRUE) : TRUE}}
    \* relations between two members of the same kind (equal, prefix, equal length)
    \cup UNION {{SentCase(c, sv, "related-pair", F) : sv \in RelatedPairs(CommandTable[c].schema, F, TRUE)} : c \in {1, 2, 6, 10, 12}}
    \cup {SentCase(2, [GaReqMin EXCEPT !.extensions = <<[GaExtInMin EXCEPT !.hmacSecret = <<h>>]>>], "related-pair-nested", F) : h \in RelatedPairs("HmacIn", F, TRUE)}
    \cup {SentCase(2, [GaReqMin EXCEPT !.extensions = <<[GaExtInMin EXCEPT !.hmacSecret = <<h>>]>>], "pair-lattice-nested", F) : h \in TwoAtATime("HmacIn", F, TRUE)}

\* a full-length descriptor list with one different entry at every position
OddDesc == [id |-> Pattern(99, 300), type |-> AsciiPattern(9, 40)]
PositionCases ==
    {SentCase(2, [GaReqMin EXCEPT !.allowList = <<ListWithOddOneAt(T_Struct("DescRef"), 10, k, OddDesc, F, TRUE)>>, !.options = <<AuthOptsFull>>],
              "list-position", F) : k \in 1..10}
    \cup {SentCase(1, [McReqMin EXCEPT !.excludeList = <<ListWithOddOneAt(T_Struct("DescRef"), 16, k, OddDesc, F, TRUE)>>, !.options = <<AuthOptsFull>>],
                   "list-position", F) : k \in 1..16}
    \cup {SentCase(1, [McReqMin EXCEPT !.pubKeyCredParams = [i \in 1..12 |-> IF i = k THEN ParamOf(ALG_EdDSA) ELSE IF i = j THEN ParamOf(ALG_ES256) ELSE ParamOf(-256 - i)],
                                       !.options = <<AuthOptsFull>>], "list-position", F) : k \in {1, 2, 6, 11, 12}, j \in {1, 3, 12}}

\* the limits are per member: nothing bounds their SUM.  Requests whose members are each legal
\* and whose total length crosses the largest CTAPHID message (7609 bytes) -- one long borrowed
\* member, or many medium ones
MsgTargets == {7608, 7609, 7610, 7611, 8192, 16384, 65535, 65536, 65537}
LongHash(n) == [ReqRich(1, F) EXCEPT !.clientDataHash = Pattern(7, n)]
LargeMessages ==
    (LET l0 == Len(HostEncode(1, LongHash(7000), F)) IN
     {SentCase(1, LongHash(7000 + t - l0), "large-message", F) : t \in MsgTargets})
    \cup {SentCase(2, [GaReqMin EXCEPT !.allowList = <<[i \in 1..10 |-> [id |-> Pattern(i, k), type |-> N_publicKey]]>>,
                                       !.options = <<AuthOptsFull>>], "large-message-many", F) : k \in {700} \cup (736..746)}
    \cup {SentCase(1, [ReqRich(1, F) EXCEPT !.excludeList = <<[i \in 1..16 |-> [id |-> Pattern(i, k), type |-> N_publicKey]]>>],
                    "large-message-many", F) : k \in {255, 400, 440, 450, 460, 470, 600}}

\* every TRIPLE of members at the upper ends of their types
TripleLattice ==
    UNION {{SentCase(c, sv, "triple-lattice", F) : sv \in ThreeAtATime(CommandTable[c].schema, F, TRUE)} : c \in {1, 2, 6, 10, 12}}

\* the words of the source's dictionary and the texts some standard parser / classifier treats
\* specially, in every text member (also one level down), alone and in company
DictCases ==
    UNION {{SentCase(c, sv, "dictionary", F) : sv \in DictLattice(CommandTable[c].schema, F, TRUE)} : c \in {1, 2, 6, 10, 12}}
\* a sub-command is a mode switch: every other member over its lattice once per sub-command
ModeCases ==
    UNION {{SentCase(c, sv, "per-mode", F) : sv \in PerMode(CommandTable[c].schema, F, TRUE)} : c \in {6, 10}}
MC_CasesDict == DictCases \cup ModeCases

\* the ORDER of the members of a text-keyed map carries no meaning: every permutation of the
\* members of every nested map of up to four members (reversal, rotation and a swap of the first
\* two for larger ones) decodes to the same request -- descriptors with the type first, parameter
\* entries with the type first, options, extensions, entities
TextMaps(c, sv) ==
    LET ty == T_Indexed(CommandTable[c].schema)
        t  == ToTree(ty, sv, F, TRUE)
    IN  {m \in MapsIn(ty, t, << >>, F) : m.s \in {"Rp", "User", "DescRef", "Param", "AuthOptions", "McExt", "GaExtIn"} /\ Len(At(t, m.p).m) >= 2}
Reorderings(ps) ==
    LET n == Len(ps) IN
    IF n <= 4 THEN {[i \in 1..n |-> ps[f[i]]] : f \in Permutations(1..n)} \ {ps}
    ELSE {[i \in 1..n |-> ps[n + 1 - i]], [i \in 1..n |-> ps[(i % n) + 1]], [i \in 1..n |-> IF i = 1 THEN ps[2] ELSE IF i = 2 THEN ps[1] ELSE ps[i]]}
OrderSeeds == {[c |-> 1, sv |-> ReqRich(1, F)], [c |-> 2, sv |-> ReqFull(2, F)], [c |-> 10, sv |-> ReqFull(10, F)],
               [c |-> 1, sv |-> [McReqMin EXCEPT !.pubKeyCredParams = <<[alg |-> ALG_ES256, type |-> <<111, 116, 104, 101, 114>>], ParamOf(ALG_EdDSA),
                                                                        [alg |-> -257, type |-> N_publicKey], ParamOf(ALG_ES256)>>,
                                                !.excludeList = <<<<GDesc(1), [id |-> Pattern(3, 16), type |-> <<111, 116, 104, 101, 114>>]>>>>,
                                                !.options = <<AuthOptsFull>>]]}
OrderCases ==
    UNION {LET ty == T_Indexed(CommandTable[x.c].schema)
               t  == ToTree(ty, x.sv, F, TRUE)
           IN  UNION {{[op |-> "decode2", tag |-> "member-order", c |-> x.c, sv |-> <<x.sv>>,
                        wire |-> <<x.c>> \o Enc(Put(t, m.p, CMap(ps)))] : ps \in Reorderings(At(t, m.p).m)} : m \in TextMaps(x.c, x.sv)}
           : x \in OrderSeeds}
\* (for the round trip of the bidirectional request types through Request::deserialize)
RtModeCases ==
    {SentCase(6, sv, "per-mode-present", F) : sv \in PerModeOn("CpReq", F, TRUE, FullOfLows("CpReq", F, TRUE))}
    \cup {SentCase(10, sv, "per-mode", F) : sv \in PerMode("CmReq", F, TRUE)}
    \cup {SentCase(12, sv, "value-lattice", F) : sv \in OneAtATimeOn("LbReq", F, TRUE, FullOfLows("LbReq", F, TRUE))}
MC_CasesDictDeep ==
    MC_CasesDict
    \cup UNION {{SentCase(c, sv, "dictionary", F) : sv \in DictLatticeDeep(CommandTable[c].schema, F, TRUE)} : c \in {1, 2, 6, 10, 12}}
    \cup UNION {{SentCase(c, sv, "per-mode", F) : sv \in PerModeDeep(CommandTable[c].schema, F, TRUE)} : c \in {6, 10}}

MC_Cases == TripleLattice \cup LargeMessages \cup TopSubsets \cup NestedSubsets \cup FullRequests \cup SubCommands \cup ParamOrders \cup ValueLattice \cup PairLattice \cup PositionCases
=============================================================================
