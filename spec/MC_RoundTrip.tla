----------------------------- MODULE MC_RoundTrip -----------------------------
(* Scenario: every type that can be both encoded and decoded, over the subset  *)
(* generators: decode(encode(v)) = v and encode(decode(b)) = b for canonical b *)
(* in the image.  The relying-party icon is the one documented exception.  C15 *)
EXTENDS Ctap, Gen, Lattice

SubsetsAuto(min, vals) ==
    IF Cardinality(DOMAIN vals) <= 8 THEN SubsetsOf(min, vals) ELSE SmallSubsetsOf(min, vals)

\* [type, v]
Values ==
    {[type |-> "CpReq", v |-> v] : v \in SubsetsOf(CpReqMin, CpReqOptVals)}
    \cup {[type |-> "CpReq", v |-> [CpReqMin EXCEPT !.subCommand = n]] : n \in PinSubcommands}
    \cup {[type |-> "CmReq", v |-> v] : v \in SubsetsOf(CmReqMin, CmReqOptVals)}
    \cup {[type |-> "CmReq", v |-> [CmReqMin EXCEPT !.subCommand = n]] : n \in CmSubcommands}
    \cup {[type |-> "CmParams", v |-> v] : v \in SubsetsOf(CmParamsMin, CmParamsOptVals)}
    \cup {[type |-> "LbReq", v |-> v] : v \in SubsetsOf(LbReqMin, LbReqOptVals)}
    \cup {[type |-> "GetInfoResp", v |-> v] : v \in SubsetsAuto(GiMin, GiOptionalVals(F))}
    \cup {[type |-> "GetInfoOptions", v |-> v] : v \in SubsetsAuto(GiOptMin, GiOptOptVals(F))}
    \cup (IF GIF \in F THEN {[type |-> "Certifications", v |-> v] : v \in SubsetsOf(CertMin, CertOptVals)} ELSE {})
    \cup {[type |-> "CpResp", v |-> v] : v \in SubsetsOf(CpRespMin, CpRespOptVals)}
    \cup {[type |-> "LbResp", v |-> [config |-> c]] : c \in {GNone, << << >> >>} \cup (IF LB \in F THEN {<<Pattern(1, 300)>>} ELSE {})}
    \cup {[type |-> "HmacIn", v |-> v] : v \in {HmacInMin, HmacInFull}}
    \cup {[type |-> "AuthOptions", v |-> v] : v \in SubsetsOf(AuthOptsMin, AuthOptsOptVals)}
    \cup {[type |-> "AuthOptions", v |-> [rk |-> <<a>>, up |-> <<b>>, uv |-> <<c>>]] : a, b, c \in BOOLEAN}
    \cup {[type |-> "McExt", v |-> v] : v \in SubsetsOf(McExtMin, McExtOptVals(F))}
    \cup {[type |-> "McExt", v |-> [McExtMin EXCEPT !.credProtect = <<n>>]] : n \in {0, 1, 2, 3, 23, 24, 255}}
    \cup {[type |-> "GaExtIn", v |-> v] : v \in SubsetsOf(GaExtInMin, GaExtInOptVals(F))}
    \cup {[type |-> "GaExtOut", v |-> v] :
             v \in SubsetsOf([hmacSecret |-> GNone, thirdPartyPayment |-> GNone],
                             IF TPP \in F THEN [hmacSecret |-> Pattern(65, 64), thirdPartyPayment |-> FALSE]
                                          ELSE [hmacSecret |-> Pattern(65, 64)])}
    \cup {[type |-> "Rp", v |-> [RpMin EXCEPT !.name = n]] : n \in {GNone, <<AsciiPattern(2, 9)>>, <<AsciiPattern(2, 64)>>}}
    \cup {[type |-> "User", v |-> v] : v \in SubsetsOf(UserMin, UserOptVals)}
    \cup {[type |-> "User", v |-> [UserMin EXCEPT !.id = Pattern(1, n)]] : n \in {0, 1, 64}}
    \cup {[type |-> "Desc", v |-> [id |-> Pattern(1, n), type |-> t]] : n \in {0, 16, 255}, t \in {N_publicKey, << >>, AsciiPattern(1, 32)}}
    \cup {[type |-> "DescRef", v |-> [id |-> Pattern(1, n), type |-> N_publicKey]] : n \in {0, 16, 300}}
    \cup {[type |-> "Param", v |-> ParamOf(a)] : a \in {-2147483647 - 1, -65537, -257, -8, -7, -1, 0, 24, 65536, 2147483647}}
    \cup {[type |-> "Params", v |-> l] : l \in {<< >>, <<ALG_ES256>>, <<ALG_EdDSA, ALG_ES256>>}}
    \cup {[type |-> "GaUnsignedExt", v |-> << >>]}
    \cup {[type |-> "CoseEcdh", v |-> EcdhKey(n)] : n \in {1, 77}}
    \cup {[type |-> "CoseAny", v |-> CoseOfKind(k)] : k \in CoseKinds}
    \cup UNION {{[type |-> t, v |-> w] : w \in EnumStrTable(t)} : t \in {"Version", "Extension", "Transport", "Format"}}
    \cup {[type |-> "PinSub", v |-> n] : n \in PinSubcommands}
    \cup {[type |-> "CmSub", v |-> n] : n \in CmSubcommands}
    \cup {[type |-> "CredProtect", v |-> n] : n \in CredProtectPolicies}

\* every member of every bidirectional map type one at a time over the lattice of its type, and
\* the list / scalar types over theirs (repeated entries, both orders, unknown-but-representable values)
\* (algorithm lists are restricted to the decodable image: unknown algorithms are filtered by design)
KnownOnly(t, v) == t # "GetInfoResp" \/ v.algorithms = << >> \/ \A i \in 1..Len(v.algorithms[1]) : v.algorithms[1][i] \in KnownAlgs
LatticeValues ==
    UNION {{[type |-> t, v |-> v] : v \in {x \in OneAtATime(t, F, FALSE) : KnownOnly(t, x)}} :
              t \in {"CpReq", "CmReq", "CmParams", "LbReq", "GetInfoResp", "GetInfoOptions", "CpResp", "LbResp", "HmacIn",
                     "AuthOptions", "McExt", "GaExtIn", "GaExtOut", "User", "Desc", "DescRef", "Param"}
                    \cup (IF GIF \in F THEN {"Certifications"} ELSE {})}
    \cup {[type |-> "Params", v |-> l] : l \in {x \in ParamsAlts : \A i \in 1..Len(x) : x[i] \in KnownAlgs}}

\* the dictionary of the source and the texts some standard parser / classifier treats specially
\* (an address, a number, a date, mixed case, marks) in every text member of the entity types: a
\* text that fits round-trips whatever it looks like
DictValues ==
    UNION {{[type |-> t, v |-> v] : v \in DictOver(t, F, FALSE, MinOf(t, F, FALSE))} : t \in {"Rp", "User", "Desc", "DescRef"}}
    \cup {[type |-> "Rp", v |-> [RpMin EXCEPT !.id = w]] : w \in TextAlts(256)}

\* types the harness can build through the public API (the others are reached from bytes only)
Constructible == {"Rp", "User", "Desc", "Param", "Params", "McExt", "GaExtOut", "GetInfoResp", "GetInfoOptions",
                  "Certifications", "CpResp", "LbResp", "CoseEcdh", "CoseAny", "Version", "Extension", "Transport",
                  "Format", "CredProtect"}

RtCase(x) ==
    LET b == EncTy(TypeByName(x.type), x.v, F) IN
    TypeDecCase(x.type, b, "roundtrip") @@ [rt |-> <<x.v>>, reenc |-> b]

\* the exception: an rp icon is accepted and not re-emitted
IconException ==
    LET sv == [RpMin EXCEPT !.icon = <<AsciiPattern(3, 21)>>, !.name = <<AsciiPattern(2, 9)>>] IN
    {TypeDecCase("Rp", HostEncTy(T_Struct("Rp"), sv, F), "roundtrip-rp-icon")
        @@ [sv |-> <<sv>>, reenc |-> EncTy(T_Struct("Rp"), Lossy(T_Struct("Rp"), sv, F), F)]}

MC_Cases ==
    {RtCase(x) : x \in Values \cup LatticeValues \cup DictValues} \cup IconException
    \cup {TypeEncCase(x.type, x.v, "construct") : x \in {y \in Values : y.type \in Constructible}}

\* without the per-member lattices (used where the same corpus is run under many configurations)
MC_BaseCases == {RtCase(x) : x \in Values} \cup IconException

(***************************************************************************)
(* C15 on the model                                                        *)
(***************************************************************************)
RoundTrip ==
    phase = "decoded" /\ case.op = "decode_type" /\ case.tag = "roundtrip" =>
        /\ IsCanonical(case.bytes)
        /\ req.ok /\ req.v = case.rt[1]                                     \* decode(encode(v)) = v
        /\ EncTy(TypeByName(case.type), req.v, F) = case.bytes              \* encode(decode(b)) = b
=============================================================================
