------------------------------ MODULE MC_Unknown ------------------------------
(* Scenario: unknown text-keyed members inserted into every extensible map of  *)
(* a request, at every position, holding every kind of well-formed definite-   *)
(* length CBOR value.  The request must decode exactly as without them.  C06.  *)
EXTENDS Ctap, Gen, Faults, Lattice

CONSTANT Deep     \* BOOLEAN

ExtensibleSchemas == {"AuthOptions", "McExt", "GaExtIn", "Rp", "User", "DescRef", "Param"}

\* ----- unknown values
Leaves == {CU(1), CText(<<97>>)}
Nest1 == Leaves \cup {CArr(<<a, b>>) : a, b \in Leaves}
              \cup {CMap(<< <<CU(1), a>>, <<CText(<<122>>), b>> >>) : a, b \in Leaves}
Nest2 == Leaves \cup {CArr(<<a, b>>) : a, b \in Nest1}
              \cup {CMap(<< <<CU(1), a>>, <<CText(<<122>>), b>> >>) : a, b \in Nest1}
RECURSIVE Chain(_)
Chain(d) == IF d = 0 THEN CU(0) ELSE IF d % 2 = 0 THEN CArr(<<Chain(d - 1)>>) ELSE CMap(<< <<CU(d), Chain(d - 1)>> >>)

Scalars ==
    {CU(0), CU(23), CU(24), CU(255), CU(256), CU(65535), CU(65536), CUInt(BNMaxU32), CUInt(BNSucc(BNMaxU32)), CUInt(BNMaxU64),
     CInt(-1), CInt(-24), CInt(-25), CNInt(BNMaxU32), CNInt(BNMaxU64),
     CWide(CU(1), 1), CWide(CU(1), 8), CWide(CInt(-1), 4),          \* non-shortest integers are still well-formed CBOR
     CBool(FALSE), CBool(TRUE), CNull, CUndef, CSimple(0), CSimple(19), CSimple(32), CSimple(255),
     CFloat(2, <<60, 0>>), CFloat(4, <<63, 128, 0, 0>>), CFloat(8, <<63, 240, 0, 0, 0, 0, 0, 0>>),
     CFloat(2, <<126, 0>>), CFloat(8, <<255, 255, 255, 255, 255, 255, 255, 255>>)}
Strings ==
    {CBytes(Pattern(1, n)) : n \in {0, 1, 23, 24, 255, 256}} \cup {CText(AsciiPattern(1, n)) : n \in {0, 1, 23, 24, 255, 256}}
    \cup {CText(EncodeScalar(128512))}
Tags ==
    {CTag(BN(0), CText(<<50>>)), CTag(BN(1), CU(0)), CTag(BN(24), CBytes(<<1>>)), CTag(BN(55799), CU(1)),
     CTag(BNMaxU64, CArr(<<CU(1)>>)), CTag(BN(2), CTag(BN(3), CTag(BN(4), CNull))), CTag(BN(32), CMap(<< <<CU(1), CTag(BN(1), CU(2))>> >>))}
Containers ==
    {CArr(<< >>), CMap(<< >>), CArr([i \in 1..24 |-> CU(i)]), CMap([i \in 1..24 |-> <<CU(i), CNull>>]),
     CArr([i \in 1..256 |-> CU(0)]), Chain(16), Chain(3)}
RealWorld ==     \* members platforms really send
    {CArr(<<CText(N_usb), CText(N_nfc)>>), CBytes(Pattern(2, 32)), CBool(TRUE),
     CMap(<< <<CText(<<101, 118, 97, 108>>), CMap(<< <<CText(<<102, 105, 114, 115, 116>>), CBytes(Pattern(3, 32))>> >>)>> >>)}

UnknownVals == Scalars \cup Strings \cup Tags \cup Containers \cup RealWorld \cup (IF Deep THEN Nest2 ELSE Nest1)
\* the values used when sweeping every position
FewVals == {CU(1), CMap(<< <<CU(1), CArr(<<CU(2), CText(<<97>>)>>)>> >>), CTag(BN(1), CU(0)), CFloat(4, <<63, 128, 0, 0>>), CText(AsciiPattern(1, 24))}

N_zz == <<122, 122, 57>>     \* "zz9"
UnknownKeys == {N_zz, N_transports, N_credBlob, N_minPinLength, N_credProps, N_hmacSecretMc, N_prf}
               \cup (IF TPP \in F THEN {} ELSE {N_thirdPartyPayment})

\* names that ARE members -- of another map -- and the words of the source's dictionary: a name is
\* unknown relative to the map it appears in ("url" is a member of the relying party, not of the user)
StructSchemas == {sn \in SchemaNames : SchemaKind(sn) = "struct"}
TextKeysOf(sn) == LET ms == Schema(sn, Features) IN
                  UNION {{ms[i].key} \cup {ms[i].alias[j] : j \in 1..Len(ms[i].alias)} : i \in 1..Len(ms)}
AllTextKeys == {k.b : k \in {x \in UNION {TextKeysOf(sn) : sn \in StructSchemas} : x.k = "text"}}
\* what the map `sn` knows in configuration F (a member of a feature that is off is unknown)
KnownIn(sn) == LET ms == Members(sn, F) IN
               {k.b : k \in {x \in UNION {{ms[i].key} \cup {ms[i].alias[j] : j \in 1..Len(ms[i].alias)} : i \in 1..Len(ms)} : x.k = "text"}}
\* ... and the letter-case variants of the names the map DOES know (a look-up that folds case)
ForeignKeys(sn) == (AllTextKeys \cup {w \in DictAscii : Len(w) <= 24} \cup UNION {CaseVariants(k) : k \in KnownIn(sn)}) \ KnownIn(sn)

\* ----- base requests
BaseSeq == <<[i |-> 1, c |-> 1, sv |-> ReqRich(1, F)], [i |-> 2, c |-> 2, sv |-> ReqFull(2, F)],
             [i |-> 3, c |-> 10, sv |-> ReqFull(10, F)], [i |-> 4, c |-> 1, sv |-> McReqMin],
             \* parameter entries that will be filtered out (unknown type / algorithm) followed by more
             [i |-> 5, c |-> 1, sv |-> [McReqMin EXCEPT !.pubKeyCredParams =
                                           <<[alg |-> ALG_ES256, type |-> <<111, 116, 104, 101, 114>>], ParamOf(-257), ParamOf(ALG_EdDSA)>>,
                                         !.options = <<AuthOptsFull>>]]>>
Bases == {BaseSeq[i] : i \in 1..Len(BaseSeq)}
BaseTy(b)   == T_Indexed(CommandTable[b.c].schema)
BaseTree(b) == ToTree(BaseTy(b), b.sv, F, TRUE)
BaseWire(b) == <<b.c>> \o Enc(BaseTree(b))

ExtMaps(b) == {m \in MapsIn(BaseTy(b), BaseTree(b), << >>, F) : m.s \in ExtensibleSchemas}

UCase(b, m, pos, key, u, tag) ==
    LET t  == BaseTree(b)
        mp == At(t, m.p)
    IN  [op |-> "decode2", tag |-> tag, c |-> b.c, sv |-> << >>, base |-> b.i, schema |-> m.s,
         wire |-> <<b.c>> \o Enc(Put(t, m.p, CMap(InsertAt(mp.m, pos, <<CText(key), u>>))))]

\* every value, first / last position, the generic key
ValueSweep ==
    UNION {UNION {{UCase(b, m, pos, N_zz, u, "unknown-value") : u \in UnknownVals, pos \in {0, Len(At(BaseTree(b), m.p).m)}}
                  : m \in ExtMaps(b)} : b \in Bases}
\* every position and every key, a few values
PositionSweep ==
    UNION {UNION {{UCase(b, m, pos, k, u, "unknown-position") : u \in FewVals, k \in UnknownKeys, pos \in 0..Len(At(BaseTree(b), m.p).m)}
                  : m \in ExtMaps(b)} : b \in (IF Deep THEN Bases ELSE {BaseSeq[1], BaseSeq[2], BaseSeq[5]})}
\* several unknown members at once
Multi ==
    UNION {{[op |-> "decode2", tag |-> "unknown-multi", c |-> b.c, sv |-> << >>, base |-> b.i, schema |-> m.s,
             wire |-> <<b.c>> \o Enc(Put(BaseTree(b), m.p,
                        CMap(<< <<CText(N_zz), Chain(5)>> >> \o At(BaseTree(b), m.p).m \o << <<CText(N_prf), CTag(BN(7), CArr(<<CNull>>))>>, <<CText(N_credBlob), CFloat(2, <<0, 0>>)>> >>)))]
            : m \in ExtMaps(b)} : b \in Bases}

\* every foreign name in every extensible map: a text value, an integer, a map
ForeignVals == {CText(AsciiPattern(1, 5)), CU(1), CMap(<< <<CU(1), CText(<<97>>)>> >>), CBytes(Pattern(2, 3))}
ForeignSweep ==
    UNION {UNION {{UCase(b, m, pos, k, u, "unknown-foreign-name") :
                      u \in {CText(AsciiPattern(1, 5)), CU(1)}, k \in ForeignKeys(m.s),
                      pos \in (IF Deep THEN {0, Len(At(BaseTree(b), m.p).m)} ELSE {Len(At(BaseTree(b), m.p).m)})}
                  : m \in ExtMaps(b)} : b \in (IF Deep THEN {BaseSeq[1], BaseSeq[2], BaseSeq[3]} ELSE {BaseSeq[1]})}

\* MANY unknown members at once (a decoder that remembers the names it has seen has a capacity)
UName(i) == <<122, 48 + (i \div 10), 48 + (i % 10)>>        \* "z00" .. "z99"
Many ==
    UNION {UNION {{[op |-> "decode2", tag |-> "unknown-many", c |-> b.c, sv |-> << >>, base |-> b.i, schema |-> m.s,
             wire |-> <<b.c>> \o Enc(Put(BaseTree(b), m.p, CMap(At(BaseTree(b), m.p).m \o [i \in 1..n |-> <<CText(UName(i)), CU(i)>>])))]
            : n \in {4, 5, 6, 7, 8, 9, 15, 16, 17, 24, 32, 64}} : m \in ExtMaps(b)} : b \in {BaseSeq[1], BaseSeq[2], BaseSeq[4]}}

MC_Cases == ValueSweep \cup PositionSweep \cup Multi \cup ForeignSweep \cup Many

\* the part of this corpus that C04 replays (the skipper must not crash, whatever it is fed)
C04_Cases ==
    UNION {UNION {{UCase(b, m, pos, N_zz, u, "unknown-value") : u \in UnknownVals, pos \in {0, Len(At(BaseTree(b), m.p).m)}}
                  : m \in ExtMaps(b)} : b \in {BaseSeq[4], BaseSeq[5]}}
    \cup Multi

(***************************************************************************)
(* C06 on the model                                                        *)
(***************************************************************************)
\* the decoding of each base request, computed once
BaseDecoded == [i \in 1..Len(BaseSeq) |-> Model_decode2(BaseWire(BaseSeq[i]))]

UnknownSkipped ==
    phase = "decoded" /\ case.op = "decode2" /\ "base" \in DOMAIN case =>
        /\ req = BaseDecoded[case.base]
        /\ req.ok
=============================================================================
