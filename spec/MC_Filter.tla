------------------------------ MODULE MC_Filter ------------------------------
(* Scenario: all lists of credential parameters of length 0..MaxP over         *)
(* {ES256, EdDSA, unknown algorithm, ES256 with unknown type}; all attestation *)
(* format lists of length 0..MaxF over {packed, none, tpm, other}; algorithm   *)
(* identifiers across the i32 range; type strings up to the capacity.  C14.    *)
EXTENDS Ctap, Gen, Lattice

CONSTANTS MaxP, MaxF

N_other == <<111, 116, 104, 101, 114, 45, 102, 109, 116>>     \* "other-fmt"
N_pk2   == <<112, 117, 98, 108, 105, 99>>                     \* "public" (not "public-key")

ParamAlphabet == {ParamOf(ALG_ES256), ParamOf(ALG_EdDSA), ParamOf(-257), [alg |-> ALG_ES256, type |-> N_pk2]}
FormatAlphabet == {N_packed, N_none, N_tpm, N_other, N_fidoU2f}

SeqsUpTo(A, n) == UNION {[1..k -> A] : k \in 0..n}

ParamLists == SeqsUpTo(ParamAlphabet, MaxP)
FormatLists == SeqsUpTo(FormatAlphabet, MaxF)

\* the list is followed by further parameters: whatever the decoder leaves unread would be
\* taken for the next parameter
McBaseAfter == [McReqMin EXCEPT !.options = <<AuthOptsFull>>, !.pinUvAuthProtocol = <<BN(2)>>]
GaBaseAfter == [GaReqMin EXCEPT !.options = <<AuthOptsFull>>]

ParamCases ==
    {SentCase(1, [McBaseAfter EXCEPT !.pubKeyCredParams = l], "params-list", F) : l \in ParamLists}
    \cup {SentCase(1, [McReqMin EXCEPT !.pubKeyCredParams = l], "params-list-last", F) : l \in SeqsUpTo(ParamAlphabet, 3)}
    \cup {TypeDecCase("Params", HostEncTy(T_Params, l, F), "params-list-standalone") @@ [sv |-> <<l>>] :
             l \in SeqsUpTo(ParamAlphabet, 3)}

AlgValues == {-2147483647 - 1, -65537, -257, -25, -9, -8, -7, -6, -1, 0, 1, 23, 24, 2147483647}
TypeStrings == {<< >>, <<112>>, N_publicKey, AsciiPattern(1, 31), AsciiPattern(1, 32)}
AlgCases ==
    {SentCase(1, [McBaseAfter EXCEPT !.pubKeyCredParams = <<[alg |-> a, type |-> t], ParamOf(ALG_EdDSA)>>], "params-alg", F) :
        a \in AlgValues, t \in TypeStrings}

NearMisses(w) == CaseVariants(w) \cup {w \o <<32>>, <<32>> \o w, w \o <<0>>, SubSeq(w, 1, Len(w) - 1), w \o <<115>>}
\* candidates for an identifier WRONGLY taken for a known one: congruent to -7 / -8 modulo 2^8 and
\* 2^16, the other signature algorithms of the IANA COSE registry, every integer literal of the
\* source; alone, in front of the two known ones and between them (where it would crowd one out)
AlgCandidates == {249, 248, -263, -264, 505, 504, 65529, 65528, -65543, -65544}
                 \cup {-9, -19, -35, -36, -37, -38, -39, -47, -48, -49, -50, -51, -52, -53, -258, -259, -65535}
                 \cup DictInts
AlgCandidateCases ==
    {SentCase(1, [McBaseAfter EXCEPT !.pubKeyCredParams = l], "params-alg-candidate", F) :
        l \in UNION {{<<ParamOf(a)>>, <<ParamOf(a), ParamOf(ALG_ES256), ParamOf(ALG_EdDSA)>>, <<ParamOf(ALG_EdDSA), ParamOf(a), ParamOf(ALG_ES256)>>}
                      : a \in AlgCandidates}}
    \* the type of an entry over the dictionary (a second spelling of "public-key" must not exist)
    \cup {SentCase(1, [McBaseAfter EXCEPT !.pubKeyCredParams = <<[alg |-> ALG_ES256, type |-> w], ParamOf(ALG_EdDSA)>>], "params-type-candidate", F) :
             w \in {x \in DictAscii : Len(x) <= 32}}
    \cup {SentCase(1, [McReqMin EXCEPT !.attestationFormatsPreference = <<<<w, N_packed>>>>], "formats-candidate", F) :
             w \in {x \in DictAscii : Len(x) <= 32}}
    \* near misses of the one accepted type and of the accepted formats: letter case, one character
    \* more or less, white space (two such entries in front of the genuine ones fill both slots)
    \cup {SentCase(1, [McBaseAfter EXCEPT !.pubKeyCredParams = <<[alg |-> ALG_ES256, type |-> w], [alg |-> ALG_EdDSA, type |-> w], ParamOf(ALG_EdDSA), ParamOf(ALG_ES256)>>],
                    "params-type-near-miss", F) : w \in NearMisses(N_publicKey)}
    \cup {SentCase(1, [McReqMin EXCEPT !.attestationFormatsPreference = <<<<w, N_none>>>>], "formats-near-miss", F) :
             w \in NearMisses(N_packed) \cup NearMisses(N_none)}

\* a long list (the changelog promises more than twelve entries are fine)
LongCases ==
    {SentCase(1, [McReqMin EXCEPT !.pubKeyCredParams = [i \in 1..n |-> IF i = k THEN ParamOf(ALG_EdDSA) ELSE ParamOf(-256 - i)]],
              "params-long", F) : n \in {13, 40, 64}, k \in {1, 12, 13}}
    \cup {SentCase(2, [GaReqMin EXCEPT !.attestationFormatsPreference = <<[i \in 1..n |-> IF i = k THEN N_none ELSE N_other]>>],
                   "formats-long", F) : n \in {13, 40}, k \in {1, 13}}

FormatCases ==
    {SentCase(1, [McReqMin EXCEPT !.attestationFormatsPreference = <<l>>], "formats-list-mc", F) : l \in FormatLists}
    \cup {SentCase(2, [GaReqMin EXCEPT !.attestationFormatsPreference = <<l>>], "formats-list-ga", F) : l \in FormatLists}
    \* the format list is the last parameter of both commands; inside a descriptor-bearing request
    \* nothing follows it either, so the "followed by" case is exercised through the parameter list

MC_Cases == ParamCases \cup AlgCases \cup LongCases \cup FormatCases \cup AlgCandidateCases

(***************************************************************************)
(* C14 on the model: never rejected, filtered in order                     *)
(***************************************************************************)
FilterInOrder ==
    phase = "decoded" /\ case.op = "decode2" /\ case.sv # << >> =>
        /\ req.ok
        /\ (case.c = 1 =>
              LET sent == case.sv[1].pubKeyCredParams
                  kept == req.v.pubKeyCredParams
              IN  /\ Len(kept) <= 2
                  /\ \A i \in 1..Len(kept) : kept[i] \in KnownAlgs
                  \* kept is the subsequence of known entries, in the platform's order
                  /\ kept = Take2([i \in 1..Len(SelectSeq(sent, IsKnownParam)) |-> SelectSeq(sent, IsKnownParam)[i].alg]))
=============================================================================
