//! Projection of real `ctap-types` values onto the abstract records of the TLA+ specification.
//!
//! Only public fields and accessors are used.  Shape discipline (DESIGN.md appendix B): byte and
//! text strings are arrays of 0..255, integers that can exceed 2^31-1 are BigNats (big-endian byte
//! arrays without leading zeros), options are 0/1-element arrays, never `null`.

use ctap_types::ctap2::{self, client_pin, credential_management, get_assertion, large_blobs, make_credential};
use ctap_types::webauthn::*;
use serde_json::{json, Map, Value};

pub fn bytes(b: &[u8]) -> Value {
    Value::Array(b.iter().map(|x| Value::from(*x)).collect())
}
pub fn text(s: &str) -> Value {
    bytes(s.as_bytes())
}
pub fn bn(n: u64) -> Value {
    let be = n.to_be_bytes();
    let k = be.iter().position(|b| *b != 0).unwrap_or(8);
    bytes(&be[k..])
}
pub fn none() -> Value {
    json!([])
}
pub fn some(v: Value) -> Value {
    json!([v])
}
pub fn opt<T>(o: &Option<T>, f: impl Fn(&T) -> Value) -> Value {
    match o {
        None => none(),
        Some(x) => some(f(x)),
    }
}

/// Tracks whether every zero-copy member points into the input buffer.
pub struct Borrow<'a> {
    pub input: &'a [u8],
    pub inside: bool,
}
impl<'a> Borrow<'a> {
    pub fn new(input: &'a [u8]) -> Self {
        Self { input, inside: true }
    }
    pub fn check(&mut self, s: &[u8]) {
        let r = self.input.as_ptr_range();
        let p = s.as_ptr();
        // an empty slice may sit at either end
        let ok = (p >= r.start && p <= r.end) && (s.len() <= (r.end as usize - p as usize));
        if !ok {
            self.inside = false;
        }
    }
}

pub fn rp(e: &PublicKeyCredentialRpEntity) -> Value {
    json!({
        "id": text(&e.id),
        "name": opt(&e.name, |s| text(s)),
        "icon": opt(&e.icon, |_| json!([])),
    })
}

pub fn user(e: &PublicKeyCredentialUserEntity) -> Value {
    json!({
        "id": bytes(&e.id),
        "icon": opt(&e.icon, |s| text(s)),
        "name": opt(&e.name, |s| text(s)),
        "displayName": opt(&e.display_name, |s| text(s)),
    })
}

pub fn desc_ref(d: &PublicKeyCredentialDescriptorRef, bw: &mut Borrow) -> Value {
    bw.check(d.id);
    bw.check(d.key_type.as_bytes());
    json!({"id": bytes(d.id), "type": text(d.key_type)})
}

pub fn desc(d: &PublicKeyCredentialDescriptor) -> Value {
    json!({"id": bytes(&d.id), "type": text(&d.key_type)})
}

pub fn param(p: &PublicKeyCredentialParameters) -> Value {
    json!({"alg": p.alg, "type": text(&p.key_type)})
}

pub fn filtered_params(p: &FilteredPublicKeyCredentialParameters) -> Value {
    Value::Array(p.0.iter().map(|k| json!(k.alg)).collect())
}

pub fn auth_options(o: &ctap2::AuthenticatorOptions) -> Value {
    json!({
        "rk": opt(&o.rk, |b| json!(*b)),
        "up": opt(&o.up, |b| json!(*b)),
        "uv": opt(&o.uv, |b| json!(*b)),
    })
}

pub fn mc_ext(e: &make_credential::Extensions) -> Value {
    #[cfg(feature = "third-party-payment")]
    let tpp = opt(&e.third_party_payment, |b| json!(*b));
    #[cfg(not(feature = "third-party-payment"))]
    let tpp = none();
    json!({
        "credProtect": opt(&e.cred_protect, |b| json!(*b)),
        "hmacSecret": opt(&e.hmac_secret, |b| json!(*b)),
        "largeBlobKey": opt(&e.large_blob_key, |b| json!(*b)),
        "thirdPartyPayment": tpp,
    })
}

pub fn ecdh(k: &cosey::EcdhEsHkdf256PublicKey) -> Value {
    json!({"kind": "ecdh", "x": bytes(&k.x), "y": bytes(&k.y)})
}

pub fn public_key(k: &cosey::PublicKey) -> Value {
    match k {
        cosey::PublicKey::P256Key(k) => json!({"kind": "p256", "x": bytes(&k.x), "y": bytes(&k.y)}),
        cosey::PublicKey::EcdhEsHkdf256Key(k) => json!({"kind": "ecdh", "x": bytes(&k.x), "y": bytes(&k.y)}),
        cosey::PublicKey::Ed25519Key(k) => json!({"kind": "ed25519", "x": bytes(&k.x), "y": []}),
        cosey::PublicKey::TotpKey(_) => json!({"kind": "totp", "x": [], "y": []}),
    }
}

pub fn hmac_in(h: &get_assertion::HmacSecretInput) -> Value {
    json!({
        "keyAgreement": ecdh(&h.key_agreement),
        "saltEnc": bytes(&h.salt_enc),
        "saltAuth": bytes(&h.salt_auth),
        "pinUvAuthProtocol": opt(&h.pin_protocol, |n| bn(*n as u64)),
    })
}

pub fn ga_ext_in(e: &get_assertion::ExtensionsInput) -> Value {
    #[cfg(feature = "third-party-payment")]
    let tpp = opt(&e.third_party_payment, |b| json!(*b));
    #[cfg(not(feature = "third-party-payment"))]
    let tpp = none();
    json!({
        "hmacSecret": opt(&e.hmac_secret, hmac_in),
        "largeBlobKey": opt(&e.large_blob_key, |b| json!(*b)),
        "thirdPartyPayment": tpp,
    })
}

pub fn ga_ext_out(e: &get_assertion::ExtensionsOutput) -> Value {
    #[cfg(feature = "third-party-payment")]
    let tpp = opt(&e.third_party_payment, |b| json!(*b));
    #[cfg(not(feature = "third-party-payment"))]
    let tpp = none();
    json!({
        "hmacSecret": opt(&e.hmac_secret, |b| bytes(b)),
        "thirdPartyPayment": tpp,
    })
}

pub fn formats_pref(p: &ctap2::AttestationFormatsPreference) -> Value {
    json!({
        "known": Value::Array(p.known_formats().iter().map(|f| text((*f).into())).collect()),
        "unknown": p.includes_unknown_formats(),
    })
}

pub fn mc_request(r: &make_credential::Request, bw: &mut Borrow) -> Value {
    bw.check(r.client_data_hash);
    if let Some(p) = r.pin_auth {
        bw.check(p);
    }
    json!({
        "clientDataHash": bytes(r.client_data_hash),
        "rp": rp(&r.rp),
        "user": user(&r.user),
        "pubKeyCredParams": filtered_params(&r.pub_key_cred_params),
        "excludeList": match &r.exclude_list { None => none(), Some(l) => some(Value::Array(l.iter().map(|d| desc_ref(d, bw)).collect())) },
        "extensions": opt(&r.extensions, mc_ext),
        "options": opt(&r.options, auth_options),
        "pinUvAuthParam": opt(&r.pin_auth, |b| bytes(b)),
        "pinUvAuthProtocol": opt(&r.pin_protocol, |n| bn(*n as u64)),
        "enterpriseAttestation": opt(&r.enterprise_attestation, |n| bn(*n as u64)),
        "attestationFormatsPreference": opt(&r.attestation_formats_preference, formats_pref),
    })
}

pub fn ga_request(r: &get_assertion::Request, bw: &mut Borrow) -> Value {
    bw.check(r.rp_id.as_bytes());
    bw.check(r.client_data_hash);
    if let Some(p) = r.pin_auth {
        bw.check(p);
    }
    json!({
        "rpId": text(r.rp_id),
        "clientDataHash": bytes(r.client_data_hash),
        "allowList": match &r.allow_list { None => none(), Some(l) => some(Value::Array(l.iter().map(|d| desc_ref(d, bw)).collect())) },
        "extensions": opt(&r.extensions, ga_ext_in),
        "options": opt(&r.options, auth_options),
        "pinUvAuthParam": opt(&r.pin_auth, |b| bytes(b)),
        "pinUvAuthProtocol": opt(&r.pin_protocol, |n| bn(*n as u64)),
        "enterpriseAttestation": opt(&r.enterprise_attestation, |n| bn(*n as u64)),
        "attestationFormatsPreference": opt(&r.attestation_formats_preference, formats_pref),
    })
}

/// The two reserved members are `pub(crate)`; they are read from the `Debug` rendering.
fn placeholder(dbg: &str, name: &str) -> Value {
    let pat = format!("{}: ", name);
    match dbg.find(&pat) {
        Some(i) => {
            if dbg[i + pat.len()..].starts_with("None") {
                none()
            } else {
                some(json!([]))
            }
        }
        None => none(),
    }
}

pub fn cp_request(r: &client_pin::Request, bw: &mut Borrow) -> Value {
    for p in [r.pin_auth, r.new_pin_enc, r.pin_hash_enc].into_iter().flatten() {
        bw.check(p);
    }
    if let Some(s) = r.rp_id {
        bw.check(s.as_bytes());
    }
    let dbg = format!("{:?}", r);
    json!({
        "pinUvAuthProtocol": r.pin_protocol,
        "subCommand": r.sub_command.clone() as u8,
        "keyAgreement": opt(&r.key_agreement, ecdh),
        "pinUvAuthParam": opt(&r.pin_auth, |b| bytes(b)),
        "newPinEnc": opt(&r.new_pin_enc, |b| bytes(b)),
        "pinHashEnc": opt(&r.pin_hash_enc, |b| bytes(b)),
        "reserved7": placeholder(&dbg, "_placeholder07"),
        "reserved8": placeholder(&dbg, "_placeholder08"),
        "permissions": opt(&r.permissions, |n| json!(*n)),
        "rpId": opt(&r.rp_id, |s| text(s)),
    })
}

pub fn cm_params(p: &credential_management::SubcommandParameters, bw: &mut Borrow) -> Value {
    if let Some(h) = p.rp_id_hash {
        bw.check(&h[..]);
    }
    json!({
        "rpIDHash": opt(&p.rp_id_hash, |h| bytes(&h[..])),
        "credentialID": match &p.credential_id { None => none(), Some(d) => some(desc_ref(d, bw)) },
        "user": opt(&p.user, user),
    })
}

pub fn cm_request(r: &credential_management::Request, bw: &mut Borrow) -> Value {
    if let Some(p) = r.pin_auth {
        bw.check(p);
    }
    json!({
        "subCommand": r.sub_command as u8,
        "subCommandParams": match &r.sub_command_params { None => none(), Some(p) => some(cm_params(p, bw)) },
        "pinUvAuthProtocol": opt(&r.pin_protocol, |n| json!(*n)),
        "pinUvAuthParam": opt(&r.pin_auth, |b| bytes(b)),
    })
}

pub fn lb_request(r: &large_blobs::Request, bw: &mut Borrow) -> Value {
    for p in [r.set, r.pin_uv_auth_param].into_iter().flatten() {
        bw.check(p);
    }
    json!({
        "get": opt(&r.get, |n| bn(*n as u64)),
        "set": opt(&r.set, |b| bytes(b)),
        "offset": bn(r.offset as u64),
        "length": opt(&r.length, |n| bn(*n as u64)),
        "pinUvAuthParam": opt(&r.pin_uv_auth_param, |b| bytes(b)),
        "pinUvAuthProtocol": opt(&r.pin_uv_auth_protocol, |n| bn(*n as u64)),
    })
}

/// (cmd, v, vendor code)
pub fn request(r: &ctap2::Request, bw: &mut Borrow) -> (&'static str, Value, u8) {
    use ctap2::Request::*;
    match r {
        MakeCredential(r) => ("MakeCredential", mc_request(r, bw), 0),
        GetAssertion(r) => ("GetAssertion", ga_request(r, bw), 0),
        GetNextAssertion => ("GetNextAssertion", json!([]), 0),
        GetInfo => ("GetInfo", json!([]), 0),
        ClientPin(r) => ("ClientPin", cp_request(r, bw), 0),
        Reset => ("Reset", json!([]), 0),
        CredentialManagement(r) => ("CredentialManagement", cm_request(r, bw), 0),
        Selection => ("Selection", json!([]), 0),
        LargeBlobs(r) => ("LargeBlobs", lb_request(r, bw), 0),
        Vendor(op) => ("Vendor", json!([]), u8::from(*op)),
        #[allow(unreachable_patterns)]
        _ => ("?", json!([]), 0),
    }
}

// ---------------------------------------------------------------------------------------------
// responses (for round trips: decode -> project)
// ---------------------------------------------------------------------------------------------

pub fn ctap_options(o: &ctap2::get_info::CtapOptions) -> Value {
    let mut m = Map::new();
    let ob = |b: &Option<bool>| opt(b, |x| json!(*x));
    m.insert("rk".into(), json!(o.rk));
    m.insert("up".into(), json!(o.up));
    m.insert("uv".into(), ob(&o.uv));
    m.insert("plat".into(), ob(&o.plat));
    m.insert("credMgmt".into(), ob(&o.cred_mgmt));
    m.insert("clientPin".into(), ob(&o.client_pin));
    m.insert("largeBlobs".into(), ob(&o.large_blobs));
    m.insert("pinUvAuthToken".into(), ob(&o.pin_uv_auth_token));
    #[cfg(feature = "get-info-full")]
    {
        m.insert("ep".into(), ob(&o.ep));
        m.insert("uvAcfg".into(), ob(&o.uv_acfg));
        m.insert("alwaysUv".into(), ob(&o.always_uv));
        m.insert("authnrCfg".into(), ob(&o.authnr_cfg));
        m.insert("bioEnroll".into(), ob(&o.bio_enroll));
        m.insert("uvBioEnroll".into(), ob(&o.uv_bio_enroll));
        m.insert("setMinPINLength".into(), ob(&o.set_min_pin_length));
        m.insert("makeCredUvNotRqd".into(), ob(&o.make_cred_uv_not_rqd));
        m.insert("credentialMgmtPreview".into(), ob(&o.credential_mgmt_preview));
        m.insert("userVerificationMgmtPreview".into(), ob(&o.user_verification_mgmt_preview));
        m.insert("noMcGaPermissionsWithClientPin".into(), ob(&o.no_mc_ga_permissions_with_client_pin));
    }
    #[cfg(not(feature = "get-info-full"))]
    for k in ["ep", "uvAcfg", "alwaysUv", "authnrCfg", "bioEnroll", "uvBioEnroll", "setMinPINLength",
              "makeCredUvNotRqd", "credentialMgmtPreview", "userVerificationMgmtPreview",
              "noMcGaPermissionsWithClientPin"] {
        m.insert(k.into(), none());
    }
    Value::Object(m)
}

#[cfg(feature = "get-info-full")]
pub fn certifications(c: &ctap2::get_info::Certifications) -> Value {
    let o = |b: &Option<u8>| opt(b, |x| json!(*x));
    json!({
        "FIDO": o(&c.fido), "CC_EAL": o(&c.cc_eal),
        "FIPS_CMVP_2": o(&c.fips_cmpv2), "FIPS_CMVP_3": o(&c.fips_cmpv3),
        "FIPS_CMVP_2_PHY": o(&c.fips_cmpv2_phy), "FIPS_CMVP_3_PHY": o(&c.fips_cmpv3_phy),
    })
}

pub fn get_info(r: &ctap2::get_info::Response) -> Value {
    let mut m = Map::new();
    let ou = |n: &Option<usize>| opt(n, |x| bn(*x as u64));
    m.insert("versions".into(), Value::Array(r.versions.iter().map(|v| text((*v).into())).collect()));
    m.insert("extensions".into(), opt(&r.extensions, |l| Value::Array(l.iter().map(|v| text((*v).into())).collect())));
    m.insert("aaguid".into(), bytes(&r.aaguid));
    m.insert("options".into(), opt(&r.options, ctap_options));
    m.insert("maxMsgSize".into(), ou(&r.max_msg_size));
    m.insert("pinUvAuthProtocols".into(), opt(&r.pin_protocols, |l| Value::Array(l.iter().map(|v| json!(*v)).collect())));
    m.insert("maxCredentialCountInList".into(), ou(&r.max_creds_in_list));
    m.insert("maxCredentialIdLength".into(), ou(&r.max_cred_id_length));
    m.insert("transports".into(), opt(&r.transports, |l| Value::Array(l.iter().map(|v| text((*v).into())).collect())));
    m.insert("algorithms".into(), opt(&r.algorithms, filtered_params));
    m.insert("maxSerializedLargeBlobArray".into(), ou(&r.max_serialized_large_blob_array));
    #[cfg(feature = "get-info-full")]
    {
        let ob = |b: &Option<bool>| opt(b, |x| json!(*x));
        m.insert("forcePINChange".into(), ob(&r.force_pin_change));
        m.insert("minPINLength".into(), ou(&r.min_pin_length));
        m.insert("firmwareVersion".into(), ou(&r.firmware_version));
        m.insert("maxCredBlobLength".into(), ou(&r.max_cred_blob_length));
        m.insert("maxRPIDsForSetMinPINLength".into(), ou(&r.max_rpids_for_set_min_pin_length));
        m.insert("preferredPlatformUvAttempts".into(), ou(&r.preferred_platform_uv_attempts));
        m.insert("uvModality".into(), ou(&r.uv_modality));
        m.insert("certifications".into(), opt(&r.certifications, certifications));
        m.insert("remainingDiscoverableCredentials".into(), ou(&r.remaining_discoverable_credentials));
        m.insert("vendorPrototypeConfigCommands".into(), ou(&r.vendor_prototype_config_commands));
        m.insert("attestationFormats".into(), opt(&r.attestation_formats, |l| Value::Array(l.iter().map(|v| text((*v).into())).collect())));
        m.insert("uvCountSinceLastPinEntry".into(), ou(&r.uv_count_since_last_pin_entry));
        m.insert("longTouchForReset".into(), ob(&r.long_touch_for_reset));
    }
    #[cfg(not(feature = "get-info-full"))]
    for k in ["forcePINChange", "minPINLength", "firmwareVersion", "maxCredBlobLength",
              "maxRPIDsForSetMinPINLength", "preferredPlatformUvAttempts", "uvModality", "certifications",
              "remainingDiscoverableCredentials", "vendorPrototypeConfigCommands", "attestationFormats",
              "uvCountSinceLastPinEntry", "longTouchForReset"] {
        m.insert(k.into(), none());
    }
    Value::Object(m)
}

pub fn cp_response(r: &client_pin::Response) -> Value {
    json!({
        "keyAgreement": opt(&r.key_agreement, ecdh),
        "pinUvAuthToken": opt(&r.pin_token, |b| bytes(b)),
        "pinRetries": opt(&r.retries, |n| json!(*n)),
        "powerCycleState": opt(&r.power_cycle_state, |b| json!(*b)),
        "uvRetries": opt(&r.uv_retries, |n| json!(*n)),
    })
}

pub fn lb_response(r: &large_blobs::Response) -> Value {
    json!({"config": opt(&r.config, |b| bytes(b))})
}
