//! ctv-harness: conformance harness binding the TLA+ specification to the real `ctap-types`.
//!
//!   ctvh replay <in.ndjson> <out.ndjson> [--full]
//!       perform every vector's op on the real code; with an `exp` member compare it with the
//!       observation.  Output: mismatches (always), all observations (--full), a summary line.
//!   ctvh drive <driver> <seed> <n> <out.ndjson>
//!       run a seeded driver against the real code and record one event per public call.
//!   ctvh sweep <kind> ...
//!       whole-space enumerations judged against TLC-emitted tables.
//!
//! Panics, hangs and aborts of the code under test are DATA (outcome = "panic" / "hang"); the
//! harness itself exits 0 unless it is broken (exit 2) or the code under test hung (exit 3, after
//! writing the hang record, because a hung thread cannot be reclaimed).

mod build;
mod caps;
mod drive;
mod mock;
#[cfg(feature = "arbitrary")]
mod arb;
mod ops;
mod ops2;
mod proj;
mod sweep;
mod u2fcaps;

use serde_json::{json, Value};
use std::io::{BufRead, BufWriter, Write};
use std::sync::atomic::{AtomicU64, Ordering};
use std::sync::{Arc, Mutex};

pub static PANIC_MSG: Mutex<String> = Mutex::new(String::new());

pub fn install_panic_hook() {
    std::panic::set_hook(Box::new(|info| {
        let loc = info.location().map(|l| format!("{}:{}", l.file(), l.line())).unwrap_or_default();
        let msg = if let Some(s) = info.payload().downcast_ref::<&str>() {
            s.to_string()
        } else if let Some(s) = info.payload().downcast_ref::<String>() {
            s.clone()
        } else {
            "<non-string panic>".to_string()
        };
        // the message may have been formatted from an ill-formed `str` of the code under test
        let msg = String::from_utf8_lossy(msg.as_bytes()).into_owned();
        *PANIC_MSG.lock().unwrap() = format!("{} at {}", msg, loc);
    }));
}

/// With the crate's logging compiled in (`log-all`), a logger that accepts every level and FORMATS
/// every record, so that the arguments of each logging statement are really evaluated (a panic in
/// one of them is a panic of the call that logs).
#[cfg(feature = "log-all")]
mod logsink {
    use std::fmt::Write;
    pub static RECORDS: std::sync::atomic::AtomicU64 = std::sync::atomic::AtomicU64::new(0);
    struct Sink;
    impl log::Log for Sink {
        fn enabled(&self, _: &log::Metadata) -> bool {
            true
        }
        fn log(&self, record: &log::Record) {
            let mut s = String::new();
            let _ = write!(s, "{}", record.args());
            RECORDS.fetch_add(1, std::sync::atomic::Ordering::Relaxed);
        }
        fn flush(&self) {}
    }
    static SINK: Sink = Sink;
    pub fn install() {
        let _ = log::set_logger(&SINK);
        log::set_max_level(log::LevelFilter::Trace);
    }
}

/// run one op with panics turned into data
pub fn guarded(op: &str, inp: &Value) -> Value {
    let r = std::panic::catch_unwind(std::panic::AssertUnwindSafe(|| ops::run(op, inp)));
    match r {
        Ok(Ok(obs)) => json!({"outcome": "return", "obs": obs}),
        Ok(Err(e)) => json!({"outcome": "toolerr", "obs": {}, "msg": e}),
        Err(_) => {
            let msg = PANIC_MSG.lock().unwrap().clone();
            json!({"outcome": "panic", "obs": {}, "msg": msg})
        }
    }
}

fn matches(exp: &Value, obs: &Value) -> Vec<String> {
    let mut diff = vec![];
    if let Some(m) = exp.as_object() {
        for (k, v) in m {
            if obs.get(k) != Some(v) {
                diff.push(k.clone());
            }
        }
    }
    diff
}

fn replay(inp: &str, outp: &str, full: bool) -> i32 {
    let fin = std::io::BufReader::new(std::fs::File::open(inp).expect("open input"));
    let out = Arc::new(Mutex::new(BufWriter::new(std::fs::File::create(outp).expect("create output"))));
    let lines: Vec<String> = fin.lines().map(|l| l.expect("read")).filter(|l| !l.trim().is_empty()).collect();
    let lines = Arc::new(lines);
    let current = Arc::new(AtomicU64::new(u64::MAX)); // index being processed
    let started = Arc::new(AtomicU64::new(0)); // ms since epoch-ish
    let t0 = std::time::Instant::now();
    let done = Arc::new(AtomicU64::new(0));

    let (l2, c2, s2, o2, d2) = (lines.clone(), current.clone(), started.clone(), out.clone(), done.clone());
    let worker = std::thread::Builder::new()
        .stack_size(256 << 20)
        .spawn(move || {
            let (mut n, mut matched, mut mismatched, mut toolerr, mut panics, mut compared) = (0u64, 0u64, 0u64, 0u64, 0u64, 0u64);
            for (i, line) in l2.iter().enumerate() {
                let v: Value = match serde_json::from_str(line) {
                    Ok(v) => v,
                    Err(e) => {
                        toolerr += 1;
                        let mut o = o2.lock().unwrap();
                        writeln!(o, "{}", json!({"line": i, "outcome": "toolerr", "msg": format!("json: {}", e)})).unwrap();
                        continue;
                    }
                };
                let op = v.get("op").and_then(|o| o.as_str()).unwrap_or("").to_string();
                s2.store(t0.elapsed().as_millis() as u64, Ordering::SeqCst);
                c2.store(i as u64, Ordering::SeqCst);
                let mut res = guarded(&op, &v);
                c2.store(u64::MAX, Ordering::SeqCst);
                n += 1;
                let outcome = res["outcome"].as_str().unwrap_or("").to_string();
                if outcome == "toolerr" {
                    toolerr += 1;
                }
                if outcome == "panic" {
                    panics += 1;
                }
                let mut write = full;
                if let Some(exp) = v.get("exp") {
                    compared += 1;
                    let expected_outcome = exp.get("outcome").and_then(|o| o.as_str()).unwrap_or("return");
                    let mut diff = vec![];
                    if outcome != expected_outcome {
                        diff.push("outcome".to_string());
                    } else if outcome == "return" {
                        let mut e2 = exp.clone();
                        if let Some(m) = e2.as_object_mut() {
                            m.remove("outcome");
                        }
                        diff = matches(&e2, &res["obs"]);
                    }
                    if diff.is_empty() {
                        matched += 1;
                    } else {
                        mismatched += 1;
                        write = true;
                        res["diff"] = json!(diff);
                        res["vector"] = v.clone();
                    }
                    res["match"] = json!(res.get("diff").is_none());
                } else if outcome != "return" {
                    write = true;
                    res["vector"] = v.clone();
                }
                if write {
                    res["line"] = json!(i);
                    res["op"] = json!(op);
                    if let Some(id) = v.get("id") {
                        res["id"] = id.clone();
                    }
                    if full && res.get("vector").is_none() {
                        // events carry their inputs so that TLC can re-derive the expectation
                        let mut inp = v.clone();
                        if let Some(m) = inp.as_object_mut() {
                            m.remove("exp");
                        }
                        res["in"] = inp;
                    }
                    let mut o = o2.lock().unwrap();
                    writeln!(o, "{}", res).unwrap();
                    // an abort of the code under test must not lose what was already judged
                    o.flush().unwrap();
                }
            }
            let mut o = o2.lock().unwrap();
            #[cfg(feature = "log-all")]
            let log_records = logsink::RECORDS.load(Ordering::Relaxed);
            #[cfg(not(feature = "log-all"))]
            let log_records = 0u64;
            writeln!(o, "{}", json!({"summary": true, "n": n, "compared": compared, "matched": matched,
                "mismatched": mismatched, "toolerr": toolerr, "panics": panics, "log_records": log_records})).unwrap();
            o.flush().unwrap();
            d2.store(1, Ordering::SeqCst);
        })
        .expect("spawn worker");

    // watchdog: a single op may take at most 20 s
    loop {
        std::thread::sleep(std::time::Duration::from_millis(200));
        if done.load(Ordering::SeqCst) == 1 {
            break;
        }
        let cur = current.load(Ordering::SeqCst);
        if cur != u64::MAX {
            let since = t0.elapsed().as_millis() as u64 - started.load(Ordering::SeqCst);
            if since > 20_000 && current.load(Ordering::SeqCst) == cur {
                let v: Value = serde_json::from_str(&lines[cur as usize]).unwrap_or(json!({}));
                let mut o = out.lock().unwrap();
                writeln!(o, "{}", json!({"line": cur, "outcome": "hang", "obs": {}, "vector": v})).unwrap();
                writeln!(o, "{}", json!({"summary": true, "hang_at": cur})).unwrap();
                o.flush().unwrap();
                std::process::exit(3);
            }
        }
    }
    worker.join().ok();
    0
}

fn main() {
    install_panic_hook();
    #[cfg(feature = "log-all")]
    logsink::install();
    let args: Vec<String> = std::env::args().collect();
    let code = match args.get(1).map(|s| s.as_str()) {
        Some("replay") if args.len() >= 4 => replay(&args[2], &args[3], args.iter().any(|a| a == "--full")),
        Some("drive") if args.len() >= 6 => drive::main(&args[2], args[3].parse().expect("seed"), args[4].parse().expect("n"), &args[5]),
        Some("sweep") => sweep::main(&args[2..]),
        Some("features") => {
            let mut f: Vec<&str> = vec![];
            if cfg!(feature = "get-info-full") { f.push("get-info-full"); }
            if cfg!(feature = "large-blobs") { f.push("large-blobs"); }
            if cfg!(feature = "third-party-payment") { f.push("third-party-payment"); }
            if cfg!(feature = "arbitrary") { f.push("arbitrary"); }
            if cfg!(feature = "log-all") { f.push("log-all"); }
            println!("{}", json!(f));
            0
        }
        _ => {
            eprintln!("usage: ctvh replay <in> <out> [--full] | drive <driver> <seed> <n> <out> | sweep ... | features");
            2
        }
    };
    std::process::exit(code);
}
