//! further ops: command table, identifier tables, authenticator data, CTAP1, dispatch, arbitrary
use crate::build::{self, field, get_bn, get_bool, get_bytes, get_opt, get_text, get_u8, R};
use crate::proj::{self, bytes, text};
use ctap_types::ctap1;
use ctap_types::ctap2::{self, client_pin, credential_management, get_assertion, get_info, make_credential};
use serde_json::{json, Value};

// ------------------------------------------------------------------------------------------
// optable: Operation::try_from(u8), u8::from(Operation), VendorOperation::try_from(u8)
// ------------------------------------------------------------------------------------------
fn op_name(op: ctap2::Operation) -> String {
    let d = format!("{:?}", op);
    d.split('(').next().unwrap_or("").to_string()
}

pub fn optable(inp: &Value) -> R<Value> {
    let c = get_u8(field(inp, "c")?)?;
    let (recognised, name, back) = match ctap2::Operation::try_from(c) {
        Ok(op) => (true, op_name(op), u8::from(op) as i64),
        Err(()) => (false, String::new(), -1),
    };
    let into_u8_same = match ctap2::Operation::try_from(c) {
        Ok(op) => op.into_u8() == u8::from(op),
        Err(()) => true,
    };
    let (vendor_ok, vendor_back) = match ctap2::VendorOperation::try_from(c) {
        Ok(v) => (true, u8::from(v) as i64),
        Err(()) => (false, -1),
    };
    Ok(json!({"recognised": recognised, "name": name, "back": back, "into_u8_same": into_u8_same,
              "vendor_ok": vendor_ok, "vendor_back": vendor_back}))
}

// ------------------------------------------------------------------------------------------
// identifier tables
// ------------------------------------------------------------------------------------------
pub fn enum_str(inp: &Value) -> R<Value> {
    let table = field(inp, "table")?.as_str().ok_or("table")?;
    let raw = get_bytes(field(inp, "s")?)?;
    let s = match std::str::from_utf8(&raw) {
        Ok(s) => s,
        Err(_) => return Err("enum_str candidates must be UTF-8".into()),
    };
    let back: Option<&str> = match table {
        "Version" => get_info::Version::try_from(s).ok().map(|v| v.into()),
        "Extension" => get_info::Extension::try_from(s).ok().map(|v| v.into()),
        "Transport" => get_info::Transport::try_from(s).ok().map(|v| v.into()),
        "Format" => ctap2::AttestationStatementFormat::try_from(s).ok().map(|v| v.into()),
        _ => return Err(format!("enum_str: unknown table {}", table)),
    };
    Ok(json!({"ok": back.is_some(), "back": match back { Some(b) => text(b), None => json!([]) }}))
}

pub fn enum_u8(inp: &Value) -> R<Value> {
    let table = field(inp, "table")?.as_str().ok_or("table")?;
    let n = get_u8(field(inp, "n")?)?;
    let back: Option<u8> = match table {
        "CredProtect" => credential_management::CredentialProtectionPolicy::try_from(n).ok().map(|v| v as u8),
        "ControlByte" => ctap1::ControlByte::try_from(n).ok().map(|v| v as u8),
        _ => return Err(format!("enum_u8: unknown table {}", table)),
    };
    Ok(json!({"ok": back.is_some(), "back": back.map(|b| b as i64).unwrap_or(-1)}))
}

pub fn permissions(inp: &Value) -> R<Value> {
    let n = get_u8(field(inp, "n")?)?;
    use client_pin::Permissions as P;
    let valid = P::from_bits(n).map(|p| p.bits() == n).unwrap_or(false);
    Ok(json!({
        "valid": valid,
        "mc": P::MAKE_CREDENTIAL.bits(), "ga": P::GET_ASSERTION.bits(), "cm": P::CREDENTIAL_MANAGEMENT.bits(),
        "be": P::BIO_ENROLLMENT.bits(), "lbw": P::LARGE_BLOB_WRITE.bits(), "acfg": P::AUTHENTICATOR_CONFIGURATION.bits(),
    }))
}

pub fn status_codes(_inp: &Value) -> R<Value> {
    use ctap2::Error::*;
    let all = [
        Success, InvalidCommand, InvalidParameter, InvalidLength, InvalidSeq, Timeout, ChannelBusy, LockRequired,
        InvalidChannel, CborUnexpectedType, InvalidCbor, MissingParameter, LimitExceeded, UnsupportedExtension,
        FingerprintDatabaseFull, LargeBlobStorageFull, CredentialExcluded, Processing, InvalidCredential,
        UserActionPending, OperationPending, NoOperations, UnsupportedAlgorithm, OperationDenied, KeyStoreFull,
        NotBusy, NoOperationPending, UnsupportedOption, InvalidOption, KeepaliveCancel, NoCredentials,
        UserActionTimeout, NotAllowed, PinInvalid, PinBlocked, PinAuthInvalid, PinAuthBlocked, PinNotSet,
        PinRequired, PinPolicyViolation, PinTokenExpired, RequestTooLarge, ActionTimeout, UpRequired, UvBlocked,
        IntegrityFailure, InvalidSubcommand, UvInvalid, UnauthorizedPermission, Other, SpecLast, ExtensionFirst,
        ExtensionLast, VendorFirst, VendorLast,
    ];
    let mut m = serde_json::Map::new();
    for e in all {
        m.insert(format!("{:?}", e), json!(e as u8));
    }
    let flags = ctap2::AuthenticatorDataFlags::all();
    Ok(json!({"codes": Value::Object(m),
              "flag_up": ctap2::AuthenticatorDataFlags::USER_PRESENCE.bits(),
              "flag_uv": ctap2::AuthenticatorDataFlags::USER_VERIFIED.bits(),
              "flag_at": ctap2::AuthenticatorDataFlags::ATTESTED_CREDENTIAL_DATA.bits(),
              "flag_ed": ctap2::AuthenticatorDataFlags::EXTENSION_DATA.bits(),
              "flag_all": flags.bits(),
              "u2f_no_error": ctap1::NO_ERROR}))
}

// ------------------------------------------------------------------------------------------
// authenticator data
// ------------------------------------------------------------------------------------------
fn pattern(seed: u64, n: usize) -> std::vec::Vec<u8> {
    (1..=n as u64).map(|i| ((seed + i * 7) % 251) as u8).collect()
}

/// An extension-output type as a caller of the crate may define one (the authenticator-data
/// type is generic in it): two optional byte strings larger than any built-in output.
#[derive(Clone, Debug, Eq, PartialEq, serde::Serialize)]
struct CallerExt {
    #[serde(rename = "credBlob", skip_serializing_if = "Option::is_none")]
    cred_blob: Option<ctap_types::Bytes<400>>,
    #[serde(rename = "hmac-secret", skip_serializing_if = "Option::is_none")]
    hmac_secret: Option<ctap_types::Bytes<400>>,
}

/// ... and one with many members (24 optional small integers "k00" .. "k23")
macro_rules! caller_wide {
    ($($f:ident = $n:literal),*) => {
        #[derive(Clone, Debug, Default, Eq, PartialEq, serde::Serialize)]
        struct CallerWide {
            $(#[serde(rename = $n, skip_serializing_if = "Option::is_none")] $f: Option<u8>,)*
        }
        fn caller_wide(v: &Value) -> R<CallerWide> {
            Ok(CallerWide { $($f: build::opt_field(v, $n, get_u8)?,)* })
        }
    };
}
caller_wide!(k00 = "k00", k01 = "k01", k02 = "k02", k03 = "k03", k04 = "k04", k05 = "k05", k06 = "k06", k07 = "k07", k08 = "k08",
             k09 = "k09", k10 = "k10", k11 = "k11", k12 = "k12", k13 = "k13", k14 = "k14", k15 = "k15", k16 = "k16", k17 = "k17",
             k18 = "k18", k19 = "k19", k20 = "k20", k21 = "k21", k22 = "k22", k23 = "k23");

/// A caller-defined attested-credential-data type: it implements the one required method of the
/// public trait and nothing else.
struct CallerAcd(Vec<u8>);
impl ctap2::SerializeAttestedCredentialData for CallerAcd {
    fn serialize(&self, buffer: &mut ctap2::SerializedAuthenticatorData) -> ctap2::Result<()> {
        buffer.extend_from_slice(&self.0).map_err(|_| ctap2::Error::Other)
    }
}

pub fn authdata(inp: &Value) -> R<Value> {
    let i = field(inp, "in")?;
    let flavour = field(i, "flavour")?.as_str().ok_or("flavour")?;
    let hash: [u8; 32] = get_bytes(field(i, "rpIdHash")?)?.as_slice().try_into().map_err(|_| "rpIdHash must be 32 bytes")?;
    let bits = get_u8(field(i, "flags")?)?;
    let flags = ctap2::AuthenticatorDataFlags::from_bits(bits).ok_or("flags outside the four defined bits")?;
    let count = u32::try_from(get_bn(field(i, "count")?)?).map_err(|e| e.to_string())?;
    let acd = get_opt(field(i, "acd")?)?;
    let ext = get_opt(field(i, "ext")?)?;
    let (aaguid, id, pk);
    let acd_val = match acd {
        Some(a) => {
            aaguid = get_bytes(field(a, "aaguid")?)?;
            let id_len = field(a, "idLen")?.as_u64().ok_or("idLen")? as usize;
            let id_seed = field(a, "idSeed")?.as_u64().ok_or("idSeed")?;
            id = pattern(id_seed, id_len);
            pk = get_bytes(field(a, "pk")?)?;
            Some(make_credential::AttestedCredentialData { aaguid: &aaguid, credential_id: &id, credential_public_key: &pk })
        }
        None => None,
    };
    let res = match flavour {
        "mc" => {
            let e = match ext { Some(e) => Some(build::mc_ext(e)?), None => None };
            let ad = make_credential::AuthenticatorData {
                rp_id_hash: &hash, flags, sign_count: count, attested_credential_data: acd_val, extensions: e,
            };
            let _ = format!("{:?}", ad.clone() == ad);
            ad.serialize()
        }
        "ga" => {
            if acd_val.is_some() {
                return Err("ga flavour has no attested credential data".into());
            }
            let e = match ext { Some(e) => Some(build::ga_ext_out(e)?), None => None };
            let ad = get_assertion::AuthenticatorData {
                rp_id_hash: &hash, flags, sign_count: count,
                attested_credential_data: None::<get_assertion::NoAttestedCredentialData>, extensions: e,
            };
            ad.serialize()
        }
        // a caller-defined extension-output type through the generic AuthenticatorData
        "custom" => {
            if acd_val.is_some() {
                return Err("custom flavour has no attested credential data".into());
            }
            let e = match ext {
                Some(e) => Some(CallerExt {
                    cred_blob: build::opt_field(e, "credBlob", build::hbytes)?,
                    hmac_secret: build::opt_field(e, "hmacSecret", build::hbytes)?,
                }),
                None => None,
            };
            let ad = ctap2::AuthenticatorData {
                rp_id_hash: &hash, flags, sign_count: count,
                attested_credential_data: None::<get_assertion::NoAttestedCredentialData>, extensions: e,
            };
            ad.serialize()
        }
        "raw" => {
            // the same layout written by the caller's own type (ids longer than 65535 are not built)
            let raw = match acd {
                Some(a) => {
                    let aa = get_bytes(field(a, "aaguid")?)?;
                    let id_len = field(a, "idLen")?.as_u64().ok_or("idLen")? as usize;
                    if id_len > 65535 { return Err("raw flavour: id too long".into()); }
                    let idb = pattern(field(a, "idSeed")?.as_u64().ok_or("idSeed")?, id_len);
                    let pkb = get_bytes(field(a, "pk")?)?;
                    let mut v = aa.clone();
                    v.extend_from_slice(&(id_len as u16).to_be_bytes());
                    v.extend_from_slice(&idb);
                    v.extend_from_slice(&pkb);
                    Some(CallerAcd(v))
                }
                None => None,
            };
            let e = match ext { Some(e) => Some(build::mc_ext(e)?), None => None };
            let ad = ctap2::AuthenticatorData { rp_id_hash: &hash, flags, sign_count: count, attested_credential_data: raw, extensions: e };
            ad.serialize()
        }
        "wide" => {
            if acd_val.is_some() {
                return Err("wide flavour has no attested credential data".into());
            }
            let e = match ext { Some(e) => Some(caller_wide(e)?), None => None };
            let ad = ctap2::AuthenticatorData {
                rp_id_hash: &hash, flags, sign_count: count,
                attested_credential_data: None::<get_assertion::NoAttestedCredentialData>, extensions: e,
            };
            ad.serialize()
        }
        f => return Err(format!("unknown flavour {}", f)),
    };
    Ok(match res {
        Ok(b) => json!({"ok": true, "bytes": bytes(&b), "err": 0}),
        Err(e) => json!({"ok": false, "bytes": [], "err": e as u8}),
    })
}

// ------------------------------------------------------------------------------------------
// CTAP1 request parsing
// ------------------------------------------------------------------------------------------
fn proj_ctap1(r: &Result<ctap1::Request, ctap1::Error>, data_range: Option<&[u8]>) -> Value {
    match r {
        Ok(req) => {
            let _ = format!("{:?}", req);
            let (variant, control, ch, app, kh): (&str, u8, &[u8], &[u8], &[u8]) = match req {
                ctap1::Request::Register(r) => ("Register", 0, &r.challenge[..], &r.app_id[..], &[]),
                ctap1::Request::Authenticate(a) => ("Authenticate", a.control_byte as u8, &a.challenge[..], &a.app_id[..], a.key_handle),
                ctap1::Request::Version => ("Version", 0, &[], &[], &[]),
            };
            let _ = data_range;
            json!({"ok": true, "sw": 0,
                   "req": {"variant": variant, "control": control, "challenge": bytes(ch), "appId": bytes(app), "keyHandle": bytes(kh)}})
        }
        Err(e) => json!({"ok": false, "sw": u16::from(*e),
                         "req": {"variant": "", "control": 0, "challenge": [], "appId": [], "keyHandle": []}}),
    }
}

pub fn apdu(inp: &Value) -> R<Value> {
    let wire = get_bytes(field(inp, "wire")?)?;
    // entry point 1: borrowed view
    let view = iso7816::command::CommandView::try_from(wire.as_slice());
    let mut obs = match view {
        Ok(v) => {
            let r = ctap1::Request::try_from(v);
            let mut o = proj_ctap1(&r, Some(v.data()));
            o["framed"] = json!(true);
            o
        }
        Err(_) => json!({"framed": false, "ok": false, "sw": 0,
                         "req": {"variant": "", "control": 0, "challenge": [], "appId": [], "keyHandle": []}}),
    };
    // entry point 2: owned command (capacity larger than any extended APDU body we generate)
    let same_owned = match iso7816::Command::<7609>::try_from(wire.as_slice()) {
        Ok(cmd) => {
            let r = ctap1::Request::try_from(&cmd);
            let o2 = proj_ctap1(&r, None);
            obs["framed"] == json!(true) && o2["ok"] == obs["ok"] && o2["sw"] == obs["sw"] && o2["req"] == obs["req"]
        }
        Err(_) => obs["framed"] == json!(false) || wire.len() > 7609,
    };
    // ... and owned commands of smaller capacities, down to the one the data fills exactly: the
    // outcome is a function of the APDU, not of the capacity of the object that carries it
    let data_len = match iso7816::command::CommandView::try_from(wire.as_slice()) { Ok(v) => Some(v.data().len()), Err(_) => None };
    let mut same_caps = true;
    let mut exact_fit = false;
    macro_rules! cap {
        ($($n:literal),*) => {$(
            if let Some(l) = data_len {
                if l <= $n {
                    if l == $n { exact_fit = true; }
                    match iso7816::Command::<$n>::try_from(wire.as_slice()) {
                        Ok(cmd) => {
                            let o2 = proj_ctap1(&ctap1::Request::try_from(&cmd), None);
                            if !(o2["ok"] == obs["ok"] && o2["sw"] == obs["sw"] && o2["req"] == obs["req"]) { same_caps = false; }
                        }
                        Err(_) => same_caps = false,
                    }
                }
            }
        )*};
    }
    cap!(0, 1, 2, 3, 4, 5, 9, 32, 33, 63, 64, 65, 66, 67, 68, 69, 70, 80, 81, 96, 97, 128, 129, 130, 192, 193, 254, 255, 256, 257,
         258, 319, 320, 321, 322, 512, 1024, 2048);
    let _ = exact_fit;
    obs["same_owned"] = json!(same_owned && same_caps);
    Ok(obs)
}

// ------------------------------------------------------------------------------------------
// CTAP1 response encoding
// ------------------------------------------------------------------------------------------
fn build_ctap1_response(v: &Value) -> R<ctap1::Response> {
    let variant = field(v, "variant")?.as_str().ok_or("variant")?;
    Ok(match variant {
        "Register" => ctap1::Response::Register(ctap1::register::Response {
            header_byte: get_u8(field(v, "header")?)?,
            public_key: build::hbytes(field(v, "publicKey")?)?,
            key_handle: build::hbytes(field(v, "keyHandle")?)?,
            attestation_certificate: build::hbytes(field(v, "cert")?)?,
            signature: build::hbytes(field(v, "sig")?)?,
        }),
        "Authenticate" => ctap1::Response::Authenticate(ctap1::authenticate::Response {
            user_presence: get_u8(field(v, "presence")?)?,
            count: u32::try_from(get_bn(field(v, "count")?)?).map_err(|e| e.to_string())?,
            signature: build::hbytes(field(v, "sig")?)?,
        }),
        "Version" => {
            let b: [u8; 6] = get_bytes(field(v, "version")?)?.as_slice().try_into().map_err(|_| "version must be 6 bytes")?;
            ctap1::Response::Version(b)
        }
        x => return Err(format!("unknown ctap1 response variant {}", x)),
    })
}

fn u2f_serialize<const S: usize>(resp: &ctap1::Response, pre: &[u8]) -> (bool, std::vec::Vec<u8>) {
    let mut buf = iso7816::Data::<S>::new();
    buf.extend_from_slice(&pre[..pre.len().min(S)]).unwrap();
    let r = resp.serialize(&mut buf);
    (r.is_ok(), buf.to_vec())
}

pub fn u2f_encode(inp: &Value) -> R<Value> {
    let resp = build_ctap1_response(field(inp, "resp")?)?;
    let pre = get_bytes(field(inp, "pre")?)?;
    let cap = field(inp, "cap")?.as_u64().ok_or("cap")? as usize;
    if pre.len() > cap {
        return Err("prefill longer than capacity".into());
    }
    let (ok, buf) = crate::with_u2f_cap!(cap, u2f_serialize, &resp, &pre)
        .ok_or_else(|| format!("U2F capacity {} is not instantiated", cap))?;
    let _ = format!("{:?}", resp.clone() == resp);
    let kept = &buf[..pre.len().min(buf.len())];
    Ok(json!({"ok": ok, "buf": bytes(&buf), "kept": bytes(kept), "len": buf.len()}))
}

/// register::Response::new assembles 0x04 || x || y
pub fn u2f_register_new(inp: &Value) -> R<Value> {
    let key = build::ecdh(field(inp, "key")?)?;
    if key.x.len() != 32 || key.y.len() != 32 {
        return Err("coordinates must be 32 bytes".into());
    }
    let r = ctap1::register::Response::new(
        get_u8(field(inp, "header")?)?,
        &key,
        build::hbytes(field(inp, "keyHandle")?)?,
        build::hbytes(field(inp, "sig")?)?,
        build::hbytes(field(inp, "cert")?)?,
    );
    Ok(json!({"header": r.header_byte, "publicKey": bytes(&r.public_key), "keyHandle": bytes(&r.key_handle),
              "cert": bytes(&r.attestation_certificate), "sig": bytes(&r.signature)}))
}

/// Default / builder constructors and small conversion helpers (behaviour beyond the listed
/// properties; the specification states it in Model_defaults)
pub fn defaults(_inp: &Value) -> R<Value> {
    use ctap_types::webauthn::*;
    let gi = get_info::Response::default();
    let built = get_info::ResponseBuilder { versions: ctap_types::Vec::new(), aaguid: ctap_types::Bytes::from_slice(&[7u8; 16]).unwrap() }.build();
    let mc = make_credential::ResponseBuilder { fmt: ctap2::AttestationStatementFormat::None, auth_data: ctap_types::Bytes::from_slice(&[1, 2]).unwrap() }.build();
    let mut ser = |v: &dyn Fn(&mut [u8]) -> Result<usize, ()>| -> Vec<u8> { let mut b = vec![0u8; 4096]; let n = v(&mut b).unwrap_or(0); b.truncate(n); b };
    let mc_bytes = ser(&|b| ctap_types::serde::cbor_serialize(&mc, b).map(|s| s.len()).map_err(|_| ()));
    let user = PublicKeyCredentialUserEntity::from(ctap_types::Bytes::from_slice(&[9, 9, 9]).unwrap());
    let p: PublicKeyCredentialParameters = KnownPublicKeyCredentialParameters { alg: -8 }.into();
    let p2 = PublicKeyCredentialParameters::public_key_with_alg(-7);
    let mut out_set = get_assertion::ExtensionsOutput::default();
    let unset_is_set = out_set.is_set();
    out_set.hmac_secret = Some(ctap_types::Bytes::new());
    let hmac_is_set = out_set.is_set();
    Ok(json!({
        "getInfoDefault": proj::get_info(&gi),
        "getInfoBuilt": proj::get_info(&built),
        "ctapOptionsDefault": proj::ctap_options(&get_info::CtapOptions::default()),
        "mcBuiltBytes": bytes(&mc_bytes),
        "userFrom": proj::user(&user),
        "paramFromKnown": proj::param(&p),
        "paramWithAlg": proj::param(&p2),
        "cpDefaultBytes": bytes(&ser(&|b| ctap_types::serde::cbor_serialize(&client_pin::Response::default(), b).map(|s| s.len()).map_err(|_| ()))),
        "cmDefaultBytes": bytes(&ser(&|b| ctap_types::serde::cbor_serialize(&credential_management::Response::default(), b).map(|s| s.len()).map_err(|_| ()))),
        "mcExtDefault": proj::mc_ext(&make_credential::Extensions::default()),
        "gaExtInDefault": proj::ga_ext_in(&get_assertion::ExtensionsInput::default()),
        "extOutUnsetIsSet": unset_is_set,
        "extOutHmacIsSet": hmac_is_set,
        "credProtectDefault": credential_management::CredentialProtectionPolicy::default() as u8,
        "knownAlgs": Value::Array(KNOWN_ALGS.iter().map(|a| json!(*a)).collect()),
        "u2fVersion": bytes(&<crate::mock::FullAuthProbe as ctap1::Authenticator>::version()),
        "maxMessage": ctap_types::sizes::THEORETICAL_MAX_MESSAGE_SIZE,
        "authDataLen": ctap_types::sizes::AUTHENTICATOR_DATA_LENGTH,
    }))
}

pub fn run(op: &str, inp: &Value) -> R<Value> {
    match op {
        "defaults" => defaults(inp),
        "optable" => optable(inp),
        "enum_str" => enum_str(inp),
        "enum_u8" => enum_u8(inp),
        "permissions" => permissions(inp),
        "status_codes" => status_codes(inp),
        "authdata" => authdata(inp),
        "apdu" => apdu(inp),
        "u2f_encode" => u2f_encode(inp),
        "u2f_register_new" => u2f_register_new(inp),
        "dispatch" => crate::mock::dispatch(inp),
        "exchange" => crate::mock::exchange(inp),
        "session" => crate::mock::session(inp),
        #[cfg(feature = "arbitrary")]
        "arbitrary" => crate::arb::arbitrary(inp),
        _ => Err(format!("unknown op {}", op)),
    }
}

#[allow(dead_code)]
fn _unused(v: &Value) -> R<()> {
    let _ = (get_bool(v), get_text(v), proj::none());
    Ok(())
}
