//! further ops (authenticator data, U2F, dispatch, identifier tables, arbitrary)
use crate::build::R;
use serde_json::Value;

pub fn run(op: &str, _inp: &Value) -> R<Value> {
    Err(format!("unknown op {}", op))
}
