//! C19: requests built by the crate's `Arbitrary` implementations from raw bytes.
use crate::build::{field, get_bytes, R};
use crate::mock::{FullAuth, Log};
use crate::proj::{self, Borrow};
use arbitrary::{Arbitrary, Unstructured};
use ctap_types::{authenticator, ctap1, ctap2};
use serde_json::{json, Value};

fn err_name(e: arbitrary::Error) -> &'static str {
    match e {
        arbitrary::Error::NotEnoughData => "not_enough_data",
        arbitrary::Error::IncorrectFormat => "incorrect_format",
        arbitrary::Error::EmptyChoose => "empty_choose",
        _ => "other_error",
    }
}

fn proj1(r: &ctap1::Request) -> (&'static str, Value) {
    match r {
        ctap1::Request::Register(x) => ("Register", json!({"control": 0, "challenge": proj::bytes(x.challenge), "appId": proj::bytes(x.app_id), "keyHandle": []})),
        ctap1::Request::Authenticate(a) => ("Authenticate", json!({"control": a.control_byte as u8, "challenge": proj::bytes(a.challenge),
            "appId": proj::bytes(a.app_id), "keyHandle": proj::bytes(a.key_handle)})),
        ctap1::Request::Version => ("Version", json!({"control": 0, "challenge": [], "appId": [], "keyHandle": []})),
    }
}

fn none_obs(result: &str) -> Value {
    json!({"result": result, "proto": "", "cmd": "", "v": [], "code": 0, "debug_ok": true, "clone_eq": true, "calls": [], "dispatch_ok": true})
}

fn obs2(req: &ctap2::Request) -> Value {
    let mut bw = Borrow::new(&[]);
    let (cmd, v, code) = proj::request(req, &mut bw);
    let dbg = format!("{:?}", req);
    let clone_eq = req.clone() == *req;
    let mut auth = FullAuth(Log { calls: vec![], fail: None });
    let res = ctap2::Authenticator::call_ctap2(&mut auth, req);
    let calls: Vec<Value> = auth.0.calls.iter().map(|c| json!(c.0)).collect();
    json!({"result": "ok", "proto": "ctap2", "cmd": cmd, "v": v, "code": code, "debug_ok": !dbg.is_empty(),
           "clone_eq": clone_eq, "calls": calls, "dispatch_ok": res.is_ok()})
}

fn obs1(req: &ctap1::Request) -> Value {
    let (cmd, v) = proj1(req);
    let dbg = format!("{:?}", req);
    let clone_eq = req.clone() == *req;
    let mut auth = FullAuth(Log { calls: vec![], fail: None });
    let res = ctap1::Authenticator::call_ctap1(&mut auth, req);
    let mut calls: Vec<Value> = auth.0.calls.iter().map(|c| json!(c.0)).collect();
    if cmd == "Version" {
        calls.push(json!("version"));
    }
    json!({"result": "ok", "proto": "ctap1", "cmd": cmd, "v": v, "code": 0, "debug_ok": !dbg.is_empty(),
           "clone_eq": clone_eq, "calls": calls, "dispatch_ok": res.is_ok()})
}

pub fn arbitrary(inp: &Value) -> R<Value> {
    let gen = field(inp, "gen")?.as_str().ok_or("gen")?;
    let data = get_bytes(field(inp, "data")?)?;
    let mut u = Unstructured::new(&data);
    Ok(match gen {
        "ctap2" => match ctap2::Request::arbitrary(&mut u) {
            Ok(r) => obs2(&r),
            Err(e) => none_obs(err_name(e)),
        },
        "ctap1" => match ctap1::Request::arbitrary(&mut u) {
            Ok(r) => obs1(&r),
            Err(e) => none_obs(err_name(e)),
        },
        "combined" => match authenticator::Request::arbitrary(&mut u) {
            Ok(r) => {
                let _ = format!("{:?}", r.clone() == r);
                match &r {
                    authenticator::Request::Ctap1(x) => obs1(x),
                    authenticator::Request::Ctap2(x) => obs2(x),
                }
            }
            Err(e) => none_obs(err_name(e)),
        },
        g => return Err(format!("unknown generator {}", g)),
    })
}
