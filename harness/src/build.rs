//! Construction of real `ctap-types` values from the abstract records of the specification
//! (the inverse of `proj`), through the public API: builders, `Default` + field assignment, and
//! the two `verif_hooks` constructors.  A value that cannot be represented (over capacity) is an
//! error of the *vector*, reported as `Err(String)` (tool error), never a property violation.

use ctap_types::ctap2::{self, client_pin, credential_management, get_assertion, get_info, large_blobs, make_credential};
use ctap_types::webauthn::*;
use ctap_types::{Bytes, String, Vec};
use serde_bytes::ByteArray;
use serde_json::Value;

pub type R<T> = Result<T, std::string::String>;

pub fn get_bytes(v: &Value) -> R<std::vec::Vec<u8>> {
    v.as_array()
        .ok_or_else(|| format!("expected byte array, got {}", v))?
        .iter()
        .map(|x| x.as_u64().filter(|n| *n < 256).map(|n| n as u8).ok_or_else(|| format!("bad byte {}", x)))
        .collect()
}
pub fn get_text(v: &Value) -> R<std::string::String> {
    std::string::String::from_utf8(get_bytes(v)?).map_err(|e| e.to_string())
}
pub fn get_bn(v: &Value) -> R<u64> {
    let b = get_bytes(v)?;
    if b.len() > 8 {
        return Err("bignat too large".into());
    }
    if b.first() == Some(&0) {
        return Err("bignat with a leading zero byte is not a value of the specification".into());
    }
    Ok(b.iter().fold(0u64, |a, x| (a << 8) | *x as u64))
}
pub fn get_opt<'a>(v: &'a Value) -> R<Option<&'a Value>> {
    let a = v.as_array().ok_or_else(|| format!("expected option array, got {}", v))?;
    match a.len() {
        0 => Ok(None),
        1 => Ok(Some(&a[0])),
        _ => Err("option with more than one element".into()),
    }
}
pub fn field<'a>(v: &'a Value, k: &str) -> R<&'a Value> {
    v.get(k).ok_or_else(|| format!("missing field {} in {}", k, v))
}
pub fn opt_field<T>(v: &Value, k: &str, f: impl Fn(&Value) -> R<T>) -> R<Option<T>> {
    match v.get(k) {
        None => Ok(None),
        Some(x) => match get_opt(x)? {
            None => Ok(None),
            Some(i) => Ok(Some(f(i)?)),
        },
    }
}
pub fn get_bool(v: &Value) -> R<bool> {
    v.as_bool().ok_or_else(|| format!("expected bool, got {}", v))
}
pub fn get_u8(v: &Value) -> R<u8> {
    v.as_u64().filter(|n| *n < 256).map(|n| n as u8).ok_or_else(|| format!("expected u8, got {}", v))
}
pub fn get_i32(v: &Value) -> R<i32> {
    v.as_i64().and_then(|n| i32::try_from(n).ok()).ok_or_else(|| format!("expected i32, got {}", v))
}
pub fn hbytes<const N: usize>(v: &Value) -> R<Bytes<N>> {
    let b = get_bytes(v)?;
    Bytes::from_slice(&b).map_err(|_| format!("{} bytes exceed capacity {}", b.len(), N))
}
pub fn hstring<const N: usize>(v: &Value) -> R<String<N>> {
    let s = get_text(v)?;
    let mut out = String::new();
    out.push_str(&s).map_err(|_| format!("{} bytes exceed string capacity {}", s.len(), N))?;
    Ok(out)
}
pub fn byte_array<const N: usize>(v: &Value) -> R<ByteArray<N>> {
    let b = get_bytes(v)?;
    let a: [u8; N] = b.as_slice().try_into().map_err(|_| format!("expected exactly {} bytes", N))?;
    Ok(ByteArray::new(a))
}
pub fn hvec<T, const N: usize>(v: &Value, f: impl Fn(&Value) -> R<T>) -> R<Vec<T, N>> {
    let mut out = Vec::new();
    for x in v.as_array().ok_or("expected array")? {
        out.push(f(x)?).map_err(|_| format!("list exceeds capacity {}", N))?;
    }
    Ok(out)
}
pub fn get_usize(v: &Value) -> R<usize> {
    Ok(get_bn(v)? as usize)
}
pub fn get_u32(v: &Value) -> R<u32> {
    u32::try_from(get_bn(v)?).map_err(|e| e.to_string())
}

pub fn rp(v: &Value) -> R<PublicKeyCredentialRpEntity> {
    Ok(PublicKeyCredentialRpEntity {
        id: hstring(field(v, "id")?)?,
        name: opt_field(v, "name", hstring)?,
        icon: opt_field(v, "icon", |_| Ok(Icon))?,
    })
}

pub fn user(v: &Value) -> R<PublicKeyCredentialUserEntity> {
    Ok(PublicKeyCredentialUserEntity {
        id: hbytes(field(v, "id")?)?,
        icon: opt_field(v, "icon", hstring)?,
        name: opt_field(v, "name", hstring)?,
        display_name: opt_field(v, "displayName", hstring)?,
    })
}

pub fn desc(v: &Value) -> R<PublicKeyCredentialDescriptor> {
    Ok(PublicKeyCredentialDescriptor { id: hbytes(field(v, "id")?)?, key_type: hstring(field(v, "type")?)? })
}

pub fn param(v: &Value) -> R<PublicKeyCredentialParameters> {
    Ok(PublicKeyCredentialParameters { alg: get_i32(field(v, "alg")?)?, key_type: hstring(field(v, "type")?)? })
}

pub fn filtered_params(v: &Value) -> R<FilteredPublicKeyCredentialParameters> {
    Ok(FilteredPublicKeyCredentialParameters(hvec(v, |x| Ok(KnownPublicKeyCredentialParameters { alg: get_i32(x)? }))?))
}

pub fn ecdh(v: &Value) -> R<cosey::EcdhEsHkdf256PublicKey> {
    Ok(cosey::EcdhEsHkdf256PublicKey { x: hbytes(field(v, "x")?)?, y: hbytes(field(v, "y")?)? })
}

pub fn public_key(v: &Value) -> R<cosey::PublicKey> {
    let kind = field(v, "kind")?.as_str().ok_or("kind")?;
    Ok(match kind {
        "p256" => cosey::P256PublicKey { x: hbytes(field(v, "x")?)?, y: hbytes(field(v, "y")?)? }.into(),
        "ecdh" => ecdh(v)?.into(),
        "ed25519" => cosey::Ed25519PublicKey { x: hbytes(field(v, "x")?)? }.into(),
        "totp" => cosey::TotpPublicKey {}.into(),
        k => return Err(format!("unknown cose kind {}", k)),
    })
}

pub fn mc_ext(v: &Value) -> R<make_credential::Extensions> {
    let mut e = make_credential::Extensions::default();
    e.cred_protect = opt_field(v, "credProtect", get_u8)?;
    e.hmac_secret = opt_field(v, "hmacSecret", get_bool)?;
    e.large_blob_key = opt_field(v, "largeBlobKey", get_bool)?;
    #[cfg(feature = "third-party-payment")]
    {
        e.third_party_payment = opt_field(v, "thirdPartyPayment", get_bool)?;
    }
    #[cfg(not(feature = "third-party-payment"))]
    if opt_field(v, "thirdPartyPayment", get_bool)?.is_some() {
        return Err("thirdPartyPayment set without the feature".into());
    }
    Ok(e)
}

pub fn ga_ext_out(v: &Value) -> R<get_assertion::ExtensionsOutput> {
    let mut e = get_assertion::ExtensionsOutput::default();
    e.hmac_secret = opt_field(v, "hmacSecret", hbytes)?;
    #[cfg(feature = "third-party-payment")]
    {
        e.third_party_payment = opt_field(v, "thirdPartyPayment", get_bool)?;
    }
    #[cfg(not(feature = "third-party-payment"))]
    if opt_field(v, "thirdPartyPayment", get_bool)?.is_some() {
        return Err("thirdPartyPayment set without the feature".into());
    }
    Ok(e)
}

pub fn format(v: &Value) -> R<ctap2::AttestationStatementFormat> {
    let s = get_text(v)?;
    ctap2::AttestationStatementFormat::try_from(s.as_str()).map_err(|_| format!("unknown format {}", s))
}
pub fn version(v: &Value) -> R<get_info::Version> {
    let s = get_text(v)?;
    get_info::Version::try_from(s.as_str()).map_err(|_| format!("unknown version {}", s))
}
pub fn extension(v: &Value) -> R<get_info::Extension> {
    let s = get_text(v)?;
    get_info::Extension::try_from(s.as_str()).map_err(|_| format!("unknown extension {}", s))
}
pub fn transport(v: &Value) -> R<get_info::Transport> {
    let s = get_text(v)?;
    get_info::Transport::try_from(s.as_str()).map_err(|_| format!("unknown transport {}", s))
}

pub fn att_stmt(v: &Value) -> R<ctap2::AttestationStatement> {
    if get_bool(field(v, "packed")?)? {
        Ok(ctap2::AttestationStatement::Packed(ctap2::PackedAttestationStatement {
            alg: get_i32(field(v, "alg")?)?,
            sig: hbytes(field(v, "sig")?)?,
            x5c: opt_field(v, "x5c", |l| hvec(l, hbytes))?,
        }))
    } else {
        Ok(ctap2::AttestationStatement::None(ctap2::NoneAttestationStatement {}))
    }
}

pub fn ctap_options(v: &Value) -> R<get_info::CtapOptions> {
    let mut o = get_info::CtapOptions::default();
    o.rk = get_bool(field(v, "rk")?)?;
    o.up = get_bool(field(v, "up")?)?;
    o.uv = opt_field(v, "uv", get_bool)?;
    o.plat = opt_field(v, "plat", get_bool)?;
    o.cred_mgmt = opt_field(v, "credMgmt", get_bool)?;
    o.client_pin = opt_field(v, "clientPin", get_bool)?;
    o.large_blobs = opt_field(v, "largeBlobs", get_bool)?;
    o.pin_uv_auth_token = opt_field(v, "pinUvAuthToken", get_bool)?;
    #[cfg(feature = "get-info-full")]
    {
        o.ep = opt_field(v, "ep", get_bool)?;
        o.uv_acfg = opt_field(v, "uvAcfg", get_bool)?;
        o.always_uv = opt_field(v, "alwaysUv", get_bool)?;
        o.authnr_cfg = opt_field(v, "authnrCfg", get_bool)?;
        o.bio_enroll = opt_field(v, "bioEnroll", get_bool)?;
        o.uv_bio_enroll = opt_field(v, "uvBioEnroll", get_bool)?;
        o.set_min_pin_length = opt_field(v, "setMinPINLength", get_bool)?;
        o.make_cred_uv_not_rqd = opt_field(v, "makeCredUvNotRqd", get_bool)?;
        o.credential_mgmt_preview = opt_field(v, "credentialMgmtPreview", get_bool)?;
        o.user_verification_mgmt_preview = opt_field(v, "userVerificationMgmtPreview", get_bool)?;
        o.no_mc_ga_permissions_with_client_pin = opt_field(v, "noMcGaPermissionsWithClientPin", get_bool)?;
    }
    Ok(o)
}

#[cfg(feature = "get-info-full")]
pub fn certifications(v: &Value) -> R<get_info::Certifications> {
    Ok(ctap_types::verif_hooks::certifications(
        opt_field(v, "FIPS_CMVP_2", get_u8)?,
        opt_field(v, "FIPS_CMVP_3", get_u8)?,
        opt_field(v, "FIPS_CMVP_2_PHY", get_u8)?,
        opt_field(v, "FIPS_CMVP_3_PHY", get_u8)?,
        opt_field(v, "CC_EAL", get_u8)?,
        opt_field(v, "FIDO", get_u8)?,
    ))
}

pub fn get_info(v: &Value) -> R<get_info::Response> {
    let mut r = get_info::ResponseBuilder {
        versions: hvec(field(v, "versions")?, version)?,
        aaguid: hbytes(field(v, "aaguid")?)?,
    }
    .build();
    r.extensions = opt_field(v, "extensions", |l| hvec(l, extension))?;
    r.options = opt_field(v, "options", ctap_options)?;
    r.max_msg_size = opt_field(v, "maxMsgSize", get_usize)?;
    r.pin_protocols = opt_field(v, "pinUvAuthProtocols", |l| hvec(l, get_u8))?;
    r.max_creds_in_list = opt_field(v, "maxCredentialCountInList", get_usize)?;
    r.max_cred_id_length = opt_field(v, "maxCredentialIdLength", get_usize)?;
    r.transports = opt_field(v, "transports", |l| hvec(l, transport))?;
    r.algorithms = opt_field(v, "algorithms", filtered_params)?;
    r.max_serialized_large_blob_array = opt_field(v, "maxSerializedLargeBlobArray", get_usize)?;
    #[cfg(feature = "get-info-full")]
    {
        r.force_pin_change = opt_field(v, "forcePINChange", get_bool)?;
        r.min_pin_length = opt_field(v, "minPINLength", get_usize)?;
        r.firmware_version = opt_field(v, "firmwareVersion", get_usize)?;
        r.max_cred_blob_length = opt_field(v, "maxCredBlobLength", get_usize)?;
        r.max_rpids_for_set_min_pin_length = opt_field(v, "maxRPIDsForSetMinPINLength", get_usize)?;
        r.preferred_platform_uv_attempts = opt_field(v, "preferredPlatformUvAttempts", get_usize)?;
        r.uv_modality = opt_field(v, "uvModality", get_usize)?;
        r.certifications = opt_field(v, "certifications", certifications)?;
        r.remaining_discoverable_credentials = opt_field(v, "remainingDiscoverableCredentials", get_usize)?;
        r.vendor_prototype_config_commands = opt_field(v, "vendorPrototypeConfigCommands", get_usize)?;
        r.attestation_formats = opt_field(v, "attestationFormats", |l| hvec(l, format))?;
        r.uv_count_since_last_pin_entry = opt_field(v, "uvCountSinceLastPinEntry", get_usize)?;
        r.long_touch_for_reset = opt_field(v, "longTouchForReset", get_bool)?;
    }
    Ok(r)
}

pub fn mc_response(v: &Value) -> R<make_credential::Response> {
    let mut r = make_credential::ResponseBuilder {
        fmt: format(field(v, "fmt")?)?,
        auth_data: hbytes(field(v, "authData")?)?,
    }
    .build();
    r.att_stmt = opt_field(v, "attStmt", att_stmt)?;
    r.ep_att = opt_field(v, "epAtt", get_bool)?;
    r.large_blob_key = opt_field(v, "largeBlobKey", byte_array)?;
    r.unsigned_extension_outputs = opt_field(v, "unsignedExtensionOutputs", |_| {
        Ok(ctap_types::verif_hooks::make_credential_unsigned_extension_outputs())
    })?;
    Ok(r)
}

pub fn ga_response(v: &Value) -> R<get_assertion::Response> {
    let mut r = get_assertion::ResponseBuilder {
        credential: desc(field(v, "credential")?)?,
        auth_data: hbytes(field(v, "authData")?)?,
        signature: hbytes(field(v, "signature")?)?,
    }
    .build();
    r.user = opt_field(v, "user", user)?;
    r.number_of_credentials = opt_field(v, "numberOfCredentials", get_u32)?;
    r.user_selected = opt_field(v, "userSelected", get_bool)?;
    r.large_blob_key = opt_field(v, "largeBlobKey", byte_array)?;
    r.unsigned_extension_outputs = opt_field(v, "unsignedExtensionOutputs", |_| {
        ctap_types::serde::cbor_deserialize::<get_assertion::UnsignedExtensionOutputs>(&[0xA0])
            .map_err(|e| format!("{:?}", e))
    })?;
    r.ep_att = opt_field(v, "epAtt", get_bool)?;
    r.att_stmt = opt_field(v, "attStmt", att_stmt)?;
    Ok(r)
}

pub fn cp_response(v: &Value) -> R<client_pin::Response> {
    let mut r = client_pin::Response::default();
    r.key_agreement = opt_field(v, "keyAgreement", ecdh)?;
    r.pin_token = opt_field(v, "pinUvAuthToken", hbytes)?;
    r.retries = opt_field(v, "pinRetries", get_u8)?;
    r.power_cycle_state = opt_field(v, "powerCycleState", get_bool)?;
    r.uv_retries = opt_field(v, "uvRetries", get_u8)?;
    Ok(r)
}

pub fn cred_protect(v: &Value) -> R<credential_management::CredentialProtectionPolicy> {
    credential_management::CredentialProtectionPolicy::try_from(get_u8(v)?).map_err(|e| format!("{:?}", e))
}

pub fn cm_response(v: &Value) -> R<credential_management::Response> {
    let mut r = credential_management::Response::default();
    r.existing_resident_credentials_count = opt_field(v, "existingResidentCredentialsCount", get_u32)?;
    r.max_possible_remaining_residential_credentials_count =
        opt_field(v, "maxPossibleRemainingResidentCredentialsCount", get_u32)?;
    r.rp = opt_field(v, "rp", rp)?;
    r.rp_id_hash = opt_field(v, "rpIDHash", byte_array)?;
    r.total_rps = opt_field(v, "totalRPs", get_u32)?;
    r.user = opt_field(v, "user", user)?;
    r.credential_id = opt_field(v, "credentialID", desc)?;
    r.public_key = opt_field(v, "publicKey", public_key)?;
    r.total_credentials = opt_field(v, "totalCredentials", get_u32)?;
    r.cred_protect = opt_field(v, "credProtect", cred_protect)?;
    r.large_blob_key = opt_field(v, "largeBlobKey", byte_array)?;
    #[cfg(feature = "third-party-payment")]
    {
        r.third_party_payment = opt_field(v, "thirdPartyPayment", get_bool)?;
    }
    #[cfg(not(feature = "third-party-payment"))]
    if opt_field(v, "thirdPartyPayment", get_bool)?.is_some() {
        return Err("thirdPartyPayment set without the feature".into());
    }
    Ok(r)
}

pub fn lb_response(v: &Value) -> R<large_blobs::Response> {
    let mut r = large_blobs::Response::default();
    r.config = opt_field(v, "config", hbytes)?;
    Ok(r)
}

/// `{kind, v}` -> real response
pub fn response(resp: &Value) -> R<ctap2::Response> {
    let kind = field(resp, "kind")?.as_str().ok_or("kind must be a string")?;
    let v = field(resp, "v")?;
    Ok(match kind {
        "GetInfo" => ctap2::Response::GetInfo(get_info(v)?),
        "MakeCredential" => ctap2::Response::MakeCredential(mc_response(v)?),
        "GetAssertion" => ctap2::Response::GetAssertion(ga_response(v)?),
        "GetNextAssertion" => ctap2::Response::GetNextAssertion(ga_response(v)?),
        "ClientPin" => ctap2::Response::ClientPin(cp_response(v)?),
        "CredentialManagement" => ctap2::Response::CredentialManagement(cm_response(v)?),
        "LargeBlobs" => ctap2::Response::LargeBlobs(lb_response(v)?),
        "Reset" => ctap2::Response::Reset,
        "Selection" => ctap2::Response::Selection,
        "Vendor" => ctap2::Response::Vendor,
        k => return Err(format!("unknown response kind {}", k)),
    })
}
