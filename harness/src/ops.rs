//! One function per public call of the library (= one action of the specification).  Every op
//! takes the JSON inputs of a vector / event and returns the observation `obs`.

use crate::build::{self, field, get_bytes, R};
use crate::proj::{self, bytes, Borrow};
use ctap_types::ctap2::{self, client_pin, credential_management, get_assertion, get_info, large_blobs, make_credential};
use ctap_types::serde::{cbor_deserialize, cbor_serialize};
use ctap_types::webauthn::*;
use serde_json::{json, Value};

fn cbor_err(e: ctap_types::serde::Error) -> &'static str {
    match e {
        ctap_types::serde::Error::SerdeMissingField => "missing",
        _ => "invalid",
    }
}

// ------------------------------------------------------------------------------------------
// decode2: ctap2::Request::deserialize
// ------------------------------------------------------------------------------------------
pub fn decode2_once(wire: &[u8]) -> Value {
    match ctap2::Request::deserialize(wire) {
        Ok(req) => {
            let mut bw = Borrow::new(wire);
            let (cmd, v, code) = proj::request(&req, &mut bw);
            // the value must also survive Debug / Clone / PartialEq
            let cloned = req.clone();
            let clone_eq = cloned == req;
            let _ = format!("{:?}", req);
            json!({"ok": true, "status": 0, "cmd": cmd, "v": v, "code": code,
                   "borrowed_inside": bw.inside, "clone_eq": clone_eq})
        }
        Err(e) => json!({"ok": false, "status": e as u8, "cmd": "", "v": [], "code": 0,
                         "borrowed_inside": true, "clone_eq": true}),
    }
}

pub fn decode2(inp: &Value) -> R<Value> {
    let wire = get_bytes(field(inp, "wire")?)?;
    let first = decode2_once(&wire);
    // same bytes, fresh buffer at a different address: the result must be the same
    let copy = wire.clone();
    let second = decode2_once(&copy);
    let mut obs = first.clone();
    obs["again_same"] = json!(first == second);
    Ok(obs)
}

// ------------------------------------------------------------------------------------------
// encode2: ctap2::Response::serialize into a Vec<u8, N>
// ------------------------------------------------------------------------------------------
pub fn serialize_into<const N: usize>(resp: &ctap2::Response, stale: &[u8]) -> std::vec::Vec<u8> {
    let mut buf = heapless::Vec::<u8, N>::new();
    buf.extend_from_slice(&stale[..stale.len().min(N)]).unwrap();
    resp.serialize(&mut buf);
    buf.to_vec()
}

pub fn encode2(inp: &Value) -> R<Value> {
    let resp = build::response(field(inp, "resp")?)?;
    let cap = field(inp, "cap")?.as_u64().ok_or("cap")? as usize;
    let stale = match inp.get("stale") {
        Some(s) => get_bytes(s)?,
        None => vec![],
    };
    let out = crate::with_cap!(cap, serialize_into, &resp, &stale)
        .ok_or_else(|| format!("capacity {} is not instantiated", cap))?;
    // the same response into a buffer with different previous contents ...
    let alt_stale: std::vec::Vec<u8> = if stale.is_empty() { vec![0xEE; cap] } else { vec![] };
    let alt = crate::with_cap!(cap, serialize_into, &resp, &alt_stale).unwrap();
    // ... and into the largest transport buffer (the complete message)
    let big = serialize_into::<7609>(&resp, &[]);
    // the value must also survive Debug / Clone / PartialEq
    let clone_eq = resp.clone() == resp;
    let _ = format!("{:?}", resp);
    Ok(json!({"buf": bytes(&out), "buf_alt": bytes(&alt), "buf_big": bytes(&big), "clone_eq": clone_eq}))
}

// ------------------------------------------------------------------------------------------
// decode_type / encode_type / reencode: cbor_deserialize::<T> and cbor_serialize of public types
// ------------------------------------------------------------------------------------------
fn ser<T: serde::Serialize>(t: &T) -> R<std::vec::Vec<u8>> {
    let mut buf = vec![0u8; 16384];
    cbor_serialize(t, &mut buf).map(|s| s.to_vec()).map_err(|e| format!("serialize: {:?}", e))
}

fn enum_str<'a, T>(b: &'a [u8]) -> Result<T, ctap_types::serde::Error>
where
    T: serde::Deserialize<'a>,
{
    cbor_deserialize::<T>(b)
}

/// decode `b` as type `ty`; returns (projection, re-encoding if the type is serialisable,
/// `decoded == decoded.clone()`)
fn decode_as(ty: &str, b: &[u8]) -> R<Result<(Value, Option<std::vec::Vec<u8>>, bool), &'static str>> {
    macro_rules! both {
        ($t:ty, $p:expr) => {
            match cbor_deserialize::<$t>(b) {
                Ok(v) => {
                    let eq = v.clone() == v;
                    let _ = format!("{:?}", v);
                    Ok(Ok(($p(&v), Some(ser(&v)?), eq)))
                }
                Err(e) => Ok(Err(cbor_err(e))),
            }
        };
    }
    macro_rules! deonly {
        ($t:ty, $p:expr) => {
            match cbor_deserialize::<$t>(b) {
                Ok(v) => {
                    let eq = v.clone() == v;
                    let _ = format!("{:?}", v);
                    Ok(Ok(($p(&v), None, eq)))
                }
                Err(e) => Ok(Err(cbor_err(e))),
            }
        };
    }
    let mut bw = Borrow::new(b);
    match ty {
        "Rp" => both!(PublicKeyCredentialRpEntity, proj::rp),
        "User" => both!(PublicKeyCredentialUserEntity, proj::user),
        "Desc" => both!(PublicKeyCredentialDescriptor, proj::desc),
        "DescRef" => both!(PublicKeyCredentialDescriptorRef, |d| proj::desc_ref(d, &mut bw)),
        "Param" => both!(PublicKeyCredentialParameters, proj::param),
        "Params" => both!(FilteredPublicKeyCredentialParameters, proj::filtered_params),
        "AuthOptions" => both!(ctap2::AuthenticatorOptions, proj::auth_options),
        "McExt" => both!(make_credential::Extensions, proj::mc_ext),
        "GaExtIn" => both!(get_assertion::ExtensionsInput, proj::ga_ext_in),
        "HmacIn" => both!(get_assertion::HmacSecretInput, proj::hmac_in),
        "GaExtOut" => both!(get_assertion::ExtensionsOutput, proj::ga_ext_out),
        "GetInfoResp" => both!(get_info::Response, proj::get_info),
        "GetInfoOptions" => both!(get_info::CtapOptions, proj::ctap_options),
        #[cfg(feature = "get-info-full")]
        "Certifications" => both!(get_info::Certifications, proj::certifications),
        "CpResp" => both!(client_pin::Response, proj::cp_response),
        "LbResp" => both!(large_blobs::Response, proj::lb_response),
        "CpReq" => both!(client_pin::Request, |r| proj::cp_request(r, &mut bw)),
        "CmReq" => both!(credential_management::Request, |r| proj::cm_request(r, &mut bw)),
        "CmParams" => both!(credential_management::SubcommandParameters, |r| proj::cm_params(r, &mut bw)),
        "LbReq" => both!(large_blobs::Request, |r| proj::lb_request(r, &mut bw)),
        "McReq" => deonly!(make_credential::Request, |r| proj::mc_request(r, &mut bw)),
        "GaReq" => deonly!(get_assertion::Request, |r| proj::ga_request(r, &mut bw)),
        "Formats" => deonly!(ctap2::AttestationFormatsPreference, proj::formats_pref),
        "CoseEcdh" => both!(cosey::EcdhEsHkdf256PublicKey, proj::ecdh),
        "CoseAny" => both!(cosey::PublicKey, proj::public_key),
        "GaUnsignedExt" => both!(get_assertion::UnsignedExtensionOutputs, |_| json!([])),
        "Version" => match enum_str::<get_info::Version>(b) {
            Ok(v) => Ok(Ok((proj::text(v.into()), Some(ser(&v)?), v.clone() == v))),
            Err(e) => Ok(Err(cbor_err(e))),
        },
        "Extension" => match enum_str::<get_info::Extension>(b) {
            Ok(v) => Ok(Ok((proj::text(v.into()), Some(ser(&v)?), v.clone() == v))),
            Err(e) => Ok(Err(cbor_err(e))),
        },
        "Transport" => match enum_str::<get_info::Transport>(b) {
            Ok(v) => Ok(Ok((proj::text(v.into()), Some(ser(&v)?), v.clone() == v))),
            Err(e) => Ok(Err(cbor_err(e))),
        },
        "Format" => match enum_str::<ctap2::AttestationStatementFormat>(b) {
            Ok(v) => Ok(Ok((proj::text(v.into()), Some(ser(&v)?), v.clone() == v))),
            Err(e) => Ok(Err(cbor_err(e))),
        },
        "PinSub" => match cbor_deserialize::<client_pin::PinV1Subcommand>(b) {
            Ok(v) => Ok(Ok((json!(v.clone() as u8), Some(ser(&v)?), v.clone() == v))),
            Err(e) => Ok(Err(cbor_err(e))),
        },
        "CmSub" => match cbor_deserialize::<credential_management::Subcommand>(b) {
            Ok(v) => Ok(Ok((json!(v as u8), Some(ser(&v)?), v.clone() == v))),
            Err(e) => Ok(Err(cbor_err(e))),
        },
        "CredProtect" => match cbor_deserialize::<credential_management::CredentialProtectionPolicy>(b) {
            Ok(v) => Ok(Ok((json!(v as u8), Some(ser(&v)?), v.clone() == v))),
            Err(e) => Ok(Err(cbor_err(e))),
        },
        _ => Err(format!("decode_type: unknown type {}", ty)),
    }
}

pub fn decode_type(inp: &Value) -> R<Value> {
    let ty = field(inp, "type")?.as_str().ok_or("type")?;
    let b = get_bytes(field(inp, "bytes")?)?;
    Ok(match decode_as(ty, &b)? {
        Ok((v, re, eq)) => json!({"ok": true, "err": "", "v": v,
                                  "reenc": match re { Some(r) => json!([bytes(&r)]), None => json!([]) },
                                  "clone_eq": eq}),
        Err(e) => json!({"ok": false, "err": e, "v": [], "reenc": [], "clone_eq": true}),
    })
}

/// build a value of type `ty` from its abstract record through the public API and serialise it
pub fn encode_type(inp: &Value) -> R<Value> {
    let ty = field(inp, "type")?.as_str().ok_or("type")?;
    let v = field(inp, "v")?;
    let out = match ty {
        "Rp" => ser(&build::rp(v)?)?,
        "User" => ser(&build::user(v)?)?,
        "Desc" => ser(&build::desc(v)?)?,
        "Param" => ser(&build::param(v)?)?,
        "Params" => ser(&build::filtered_params(v)?)?,
        "McExt" => ser(&build::mc_ext(v)?)?,
        "GaExtOut" => ser(&build::ga_ext_out(v)?)?,
        "GetInfoResp" => ser(&build::get_info(v)?)?,
        "GetInfoOptions" => ser(&build::ctap_options(v)?)?,
        #[cfg(feature = "get-info-full")]
        "Certifications" => ser(&build::certifications(v)?)?,
        "McResp" => ser(&build::mc_response(v)?)?,
        "GaResp" => ser(&build::ga_response(v)?)?,
        "CpResp" => ser(&build::cp_response(v)?)?,
        "CmResp" => ser(&build::cm_response(v)?)?,
        "LbResp" => ser(&build::lb_response(v)?)?,
        "CoseEcdh" => ser(&build::ecdh(v)?)?,
        "CoseAny" => ser(&build::public_key(v)?)?,
        "AttStmt" => ser(&build::att_stmt(v)?)?,
        "Version" => ser(&build::version(v)?)?,
        "Extension" => ser(&build::extension(v)?)?,
        "Transport" => ser(&build::transport(v)?)?,
        "Format" => ser(&build::format(v)?)?,
        "CredProtect" => ser(&build::cred_protect(v)?)?,
        _ => return Err(format!("encode_type: unknown type {}", ty)),
    };
    Ok(json!({"bytes": bytes(&out)}))
}

pub fn run(op: &str, inp: &Value) -> R<Value> {
    match op {
        "decode2" => decode2(inp),
        "encode2" => encode2(inp),
        "decode_type" => decode_type(inp),
        "encode_type" => encode_type(inp),
        _ => crate::ops2::run(op, inp),
    }
}
