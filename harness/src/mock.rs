//! A recording mock authenticator for the dispatch property (C10): every handler appends its name
//! and the projection of the arguments it saw to a log and answers from the script.
use crate::build::{field, get_bool, get_bytes, R};
use crate::proj::{self, Borrow};
use ctap_types::ctap2::{self, client_pin, credential_management, get_assertion, get_info, large_blobs, make_credential};
use ctap_types::{ctap1, Bytes, Rpc};
use serde_json::{json, Value};
use std::cell::RefCell;

thread_local! {
    static VERSION_CALLS: RefCell<u32> = const { RefCell::new(0) };
}

pub struct Log {
    pub calls: Vec<(String, Value)>,
    pub fail: Option<u16>,
}

fn err2(code: u16) -> ctap2::Error {
    use ctap2::Error::*;
    match code {
        0x01 => InvalidCommand,
        0x19 => CredentialExcluded,
        0x27 => OperationDenied,
        0x2E => NoCredentials,
        0x31 => PinInvalid,
        0x36 => PinRequired,
        0x33 => PinAuthInvalid,
        0x7F => Other,
        // scripts only use the codes above; anything else is a broken vector, made visible
        _ => panic!("mock: status code {:#x} is not in the script table", code),
    }
}

/// Which of several answers the scripted handlers give (`script.variant`, default 0): the
/// dispatcher must hand back WHATEVER the handler returned.
pub static VARIANT: std::sync::atomic::AtomicU8 = std::sync::atomic::AtomicU8::new(0);
fn variant() -> u8 {
    VARIANT.load(std::sync::atomic::Ordering::Relaxed)
}

fn canned_cp() -> client_pin::Response {
    let mut r = client_pin::Response::default();
    match variant() {
        0 => r.retries = Some(7),
        1 => { r.retries = Some(0); r.power_cycle_state = Some(true); }
        2 => {}
        3 => { r.pin_token = Some(Bytes::from_slice(&[0xA0; 32]).unwrap()); }
        _ => { r.uv_retries = Some(255); r.retries = Some(255); }
    }
    r
}
fn canned_cm() -> credential_management::Response {
    let mut r = credential_management::Response::default();
    match variant() {
        0 => r.total_rps = Some(3),
        1 => {}
        2 => { r.existing_resident_credentials_count = Some(0); r.max_possible_remaining_residential_credentials_count = Some(u32::MAX); }
        3 => { r.total_credentials = Some(0); r.cred_protect = Some(credential_management::CredentialProtectionPolicy::Required); }
        4 => r.total_rps = Some(0),
        5 => r.total_credentials = Some(0),
        _ => { r.total_rps = Some(0); r.total_credentials = Some(0); r.existing_resident_credentials_count = Some(0); }
    }
    r
}
fn canned_lb() -> large_blobs::Response {
    let mut r = large_blobs::Response::default();
    r.config = Some(Bytes::new());
    r
}
fn canned_gi() -> get_info::Response {
    let mut r = get_info::Response::default();
    r.max_msg_size = Some(1234);
    r
}
fn canned_mc() -> make_credential::Response {
    make_credential::ResponseBuilder {
        fmt: ctap2::AttestationStatementFormat::Packed,
        auth_data: Bytes::from_slice(&[1, 2, 3]).unwrap(),
    }
    .build()
}
fn canned_ga(tag: u8) -> get_assertion::Response {
    get_assertion::ResponseBuilder {
        credential: ctap_types::webauthn::PublicKeyCredentialDescriptor {
            id: Bytes::from_slice(&[tag]).unwrap(),
            key_type: ctap_types::String::from("public-key"),
        },
        auth_data: Bytes::from_slice(&[4, 5, 6, tag]).unwrap(),
        signature: Bytes::from_slice(&[7, 8, 9]).unwrap(),
    }
    .build()
}
fn canned_reg() -> ctap1::register::Response {
    ctap1::register::Response {
        header_byte: [5u8, 0, 4, 0xFF, 1, 0x80][(variant() % 6) as usize],
        public_key: Bytes::from_slice(&[4; 65]).unwrap(),
        key_handle: Bytes::from_slice(&[9; 10]).unwrap(),
        attestation_certificate: Bytes::from_slice(&[8; 20]).unwrap(),
        signature: Bytes::from_slice(&[7; 30]).unwrap(),
    }
}
fn canned_auth() -> ctap1::authenticate::Response {
    let (user_presence, count, n) = match variant() {
        0 => (1u8, 77u32, 12usize),
        1 => (0, 0, 0),
        2 => (2, 1, 72),
        3 => (0x80, u32::MAX, 8),
        4 => (0xFE, 256, 70),
        _ => (0xFF, 65536, 1),
    };
    ctap1::authenticate::Response { user_presence, count, signature: Bytes::from_slice(&vec![6u8; n]).unwrap() }
}

macro_rules! impl_common {
    ($t:ident) => {
        pub struct $t(pub Log);
        impl $t {
            fn rec(&mut self, name: &str, args: Value) {
                self.0.calls.push((name.to_string(), args));
            }
            fn out<T>(&self, v: T) -> ctap2::Result<T> {
                match self.0.fail {
                    Some(c) => Err(err2(c)),
                    None => Ok(v),
                }
            }
        }
        impl ctap1::Authenticator for $t {
            fn register(&mut self, request: &ctap1::register::Request<'_>) -> ctap1::Result<ctap1::register::Response> {
                self.rec("register", json!({"challenge": proj::bytes(request.challenge), "appId": proj::bytes(request.app_id)}));
                match self.0.fail { Some(c) => Err(ctap1::Error::from(c)), None => Ok(canned_reg()) }
            }
            fn authenticate(&mut self, request: &ctap1::authenticate::Request<'_>) -> ctap1::Result<ctap1::authenticate::Response> {
                self.rec("authenticate", json!({"control": request.control_byte as u8, "challenge": proj::bytes(request.challenge),
                    "appId": proj::bytes(request.app_id), "keyHandle": proj::bytes(request.key_handle)}));
                match self.0.fail { Some(c) => Err(ctap1::Error::from(c)), None => Ok(canned_auth()) }
            }
            fn version() -> [u8; 6] {
                VERSION_CALLS.with(|c| *c.borrow_mut() += 1);
                *b"U2F_V2"
            }
        }
    };
}

macro_rules! impl_ctap2 {
    ($t:ident, $($lb:tt)*) => {
        impl ctap2::Authenticator for $t {
            fn get_info(&mut self) -> get_info::Response {
                self.rec("get_info", json!([]));
                canned_gi()
            }
            fn make_credential(&mut self, request: &make_credential::Request) -> ctap2::Result<make_credential::Response> {
                let mut bw = Borrow::new(&[]);
                self.rec("make_credential", proj::mc_request(request, &mut bw));
                self.out(canned_mc())
            }
            fn get_assertion(&mut self, request: &get_assertion::Request) -> ctap2::Result<get_assertion::Response> {
                let mut bw = Borrow::new(&[]);
                self.rec("get_assertion", proj::ga_request(request, &mut bw));
                self.out(canned_ga(1))
            }
            fn get_next_assertion(&mut self) -> ctap2::Result<get_assertion::Response> {
                self.rec("get_next_assertion", json!([]));
                self.out(canned_ga(2))
            }
            fn reset(&mut self) -> ctap2::Result<()> {
                self.rec("reset", json!([]));
                self.out(())
            }
            fn client_pin(&mut self, request: &client_pin::Request) -> ctap2::Result<client_pin::Response> {
                let mut bw = Borrow::new(&[]);
                self.rec("client_pin", proj::cp_request(request, &mut bw));
                self.out(canned_cp())
            }
            fn credential_management(&mut self, request: &credential_management::Request) -> ctap2::Result<credential_management::Response> {
                let mut bw = Borrow::new(&[]);
                self.rec("credential_management", proj::cm_request(request, &mut bw));
                self.out(canned_cm())
            }
            fn selection(&mut self) -> ctap2::Result<()> {
                self.rec("selection", json!([]));
                self.out(())
            }
            fn vendor(&mut self, op: ctap2::VendorOperation) -> ctap2::Result<()> {
                self.rec("vendor", json!(u8::from(op)));
                self.out(())
            }
            $($lb)*
        }
    };
}

impl_common!(FullAuth);
impl_common!(NoLbAuth);
impl_ctap2!(FullAuth,
    fn large_blobs(&mut self, request: &large_blobs::Request) -> ctap2::Result<large_blobs::Response> {
        let mut bw = Borrow::new(&[]);
        self.rec("large_blobs", proj::lb_request(request, &mut bw));
        self.out(canned_lb())
    }
);
impl_ctap2!(NoLbAuth,);

fn resp2_kind_value_ok(r: &ctap2::Response) -> (&'static str, bool) {
    use ctap2::Response::*;
    match r {
        MakeCredential(x) => ("MakeCredential", *x == canned_mc()),
        GetAssertion(x) => ("GetAssertion", *x == canned_ga(1)),
        GetNextAssertion(x) => ("GetNextAssertion", *x == canned_ga(2)),
        GetInfo(x) => ("GetInfo", *x == canned_gi()),
        ClientPin(x) => ("ClientPin", *x == canned_cp()),
        Reset => ("Reset", true),
        Selection => ("Selection", true),
        CredentialManagement(x) => ("CredentialManagement", *x == canned_cm()),
        LargeBlobs(x) => ("LargeBlobs", *x == canned_lb()),
        Vendor => ("Vendor", true),
        #[allow(unreachable_patterns)]
        _ => ("?", false),
    }
}

pub fn expected_args2(req: &ctap2::Request) -> Value {
    let mut bw = Borrow::new(&[]);
    use ctap2::Request::*;
    match req {
        MakeCredential(r) => proj::mc_request(r, &mut bw),
        GetAssertion(r) => proj::ga_request(r, &mut bw),
        ClientPin(r) => proj::cp_request(r, &mut bw),
        CredentialManagement(r) => proj::cm_request(r, &mut bw),
        LargeBlobs(r) => proj::lb_request(r, &mut bw),
        Vendor(op) => json!(u8::from(*op)),
        _ => json!([]),
    }
}

/// run one entry point on one mock; returns (calls, ok, err, kind, args_same, value_same)
fn run2<A: ctap2::Authenticator>(auth: &mut A, log: fn(&mut A) -> &mut Log, req: &ctap2::Request, rpc: bool) -> Value {
    let res = if rpc { Rpc::call(auth, req) } else { auth.call_ctap2(req) };
    let l = log(auth);
    let calls: Vec<Value> = l.calls.iter().map(|c| json!(c.0)).collect();
    let want = expected_args2(req);
    let args_same = l.calls.iter().all(|c| c.1 == want);
    match res {
        Ok(r) => {
            let (kind, vs) = resp2_kind_value_ok(&r);
            json!({"calls": calls, "ok": true, "err": 0, "kind": kind, "args_same": args_same, "value_same": vs})
        }
        Err(e) => json!({"calls": calls, "ok": false, "err": e as u8, "kind": "", "args_same": args_same, "value_same": true}),
    }
}

fn run1<A: ctap1::Authenticator>(auth: &mut A, log: fn(&mut A) -> &mut Log, req: &ctap1::Request, rpc: bool) -> Value {
    VERSION_CALLS.with(|c| *c.borrow_mut() = 0);
    let res = if rpc { Rpc::call(auth, req) } else { auth.call_ctap1(req) };
    let l = log(auth);
    let mut calls: Vec<Value> = l.calls.iter().map(|c| json!(c.0)).collect();
    let vcalls = VERSION_CALLS.with(|c| *c.borrow());
    for _ in 0..vcalls {
        calls.push(json!("version"));
    }
    let want = match req {
        ctap1::Request::Register(r) => json!({"challenge": proj::bytes(r.challenge), "appId": proj::bytes(r.app_id)}),
        ctap1::Request::Authenticate(a) => json!({"control": a.control_byte as u8, "challenge": proj::bytes(a.challenge),
            "appId": proj::bytes(a.app_id), "keyHandle": proj::bytes(a.key_handle)}),
        ctap1::Request::Version => json!([]),
    };
    let args_same = l.calls.iter().all(|c| c.1 == want);
    match res {
        Ok(r) => {
            let (kind, vs) = match &r {
                ctap1::Response::Register(x) => ("Register", *x == canned_reg()),
                ctap1::Response::Authenticate(x) => ("Authenticate", *x == canned_auth()),
                ctap1::Response::Version(v) => ("Version", v == b"U2F_V2"),
            };
            json!({"calls": calls, "ok": true, "err": 0, "kind": kind, "args_same": args_same, "value_same": vs})
        }
        Err(e) => json!({"calls": calls, "ok": false, "err": u16::from(e), "kind": "", "args_same": args_same, "value_same": true}),
    }
}

pub fn dispatch(inp: &Value) -> R<Value> {
    let wire = get_bytes(field(inp, "wire")?)?;
    let script = field(inp, "script")?;
    let fail = if get_bool(field(script, "ok")?)? { None } else { Some(field(script, "err")?.as_u64().ok_or("err")? as u16) };
    let has_lb = get_bool(field(inp, "hasLb")?)?;
    let proto = field(inp, "proto")?.as_str().ok_or("proto")?;
    let variant = field(inp, "variant")?.as_str().ok_or("variant")?;
    // which of the handlers' answers (the dispatcher must hand back whatever the handler returned)
    VARIANT.store(script.get("answer").and_then(|x| x.as_u64()).unwrap_or(0) as u8, std::sync::atomic::Ordering::Relaxed);
    let mk = || Log { calls: vec![], fail };
    let (a, b) = if proto == "ctap1-constructed" {
        // an Authenticate request built directly: wire = control byte, then the key handle
        let control_byte = ctap1::ControlByte::try_from(wire[0]).map_err(|_| "bad control byte")?;
        let (ch, app) = ([0x11u8; 32], [0x22u8; 32]);
        let req = ctap1::Request::Authenticate(ctap1::authenticate::Request {
            control_byte, challenge: &ch, app_id: &app, key_handle: &wire[1..] });
        (run1(&mut FullAuth(mk()), |a| &mut a.0, &req, false), run1(&mut FullAuth(mk()), |a| &mut a.0, &req, true))
    } else if proto == "ctap2-vendor" {
        // a vendor request constructed directly from its code (not through the decoder)
        let op = ctap2::VendorOperation::try_from(wire[0]).map_err(|_| "not a vendor code")?;
        let req = ctap2::Request::Vendor(op);
        (run2(&mut FullAuth(mk()), |a| &mut a.0, &req, false), run2(&mut FullAuth(mk()), |a| &mut a.0, &req, true))
    } else if proto == "ctap2" {
        let req = ctap2::Request::deserialize(&wire).map_err(|e| format!("dispatch vector does not decode: {:?}", e))?;
        let mut bw = Borrow::new(&wire);
        let (cmd, _, _) = proj::request(&req, &mut bw);
        if cmd != variant {
            return Err(format!("dispatch vector decodes to {} not {}", cmd, variant));
        }
        if has_lb {
            (run2(&mut FullAuth(mk()), |a| &mut a.0, &req, false), run2(&mut FullAuth(mk()), |a| &mut a.0, &req, true))
        } else {
            (run2(&mut NoLbAuth(mk()), |a| &mut a.0, &req, false), run2(&mut NoLbAuth(mk()), |a| &mut a.0, &req, true))
        }
    } else {
        let view = iso7816::command::CommandView::try_from(wire.as_slice()).map_err(|_| "dispatch APDU does not frame")?;
        let req = ctap1::Request::try_from(view).map_err(|e| format!("dispatch APDU does not parse: {:?}", e))?;
        (run1(&mut FullAuth(mk()), |a| &mut a.0, &req, false), run1(&mut FullAuth(mk()), |a| &mut a.0, &req, true))
    };
    let mut obs = a.clone();
    obs["rpc_same"] = json!(a == b);
    Ok(obs)
}


/// One complete exchange as a transport would run it: decode the message, dispatch the request to
/// the (scripted) authenticator, serialise the response into the transport buffer, which still
/// holds whatever the previous exchange left in it.  A request that cannot be decoded, or a
/// handler error, is answered with the status byte alone.
pub fn exchange(inp: &Value) -> R<Value> {
    let wire = get_bytes(field(inp, "wire")?)?;
    let script = field(inp, "script")?;
    let fail = if get_bool(field(script, "ok")?)? { None } else { Some(field(script, "err")?.as_u64().ok_or("err")? as u16) };
    let has_lb = get_bool(field(inp, "hasLb")?)?;
    let cap = field(inp, "cap")?.as_u64().ok_or("cap")? as usize;
    let stale = match inp.get("stale") { Some(s) => get_bytes(s)?, None => vec![] };
    let d = crate::ops::decode2_once(&wire);
    let req_obs = json!({"ok": d["ok"], "status": d["status"], "cmd": d["cmd"], "v": d["v"], "code": d["code"]});
    let (calls, buf): (Vec<Value>, Vec<u8>) = match ctap2::Request::deserialize(&wire) {
        Err(e) => (vec![], vec![e as u8]),
        Ok(req) => {
            let (log, res) = if has_lb {
                let mut a = FullAuth(Log { calls: vec![], fail });
                let r = ctap2::Authenticator::call_ctap2(&mut a, &req);
                (a.0, r)
            } else {
                let mut a = NoLbAuth(Log { calls: vec![], fail });
                let r = ctap2::Authenticator::call_ctap2(&mut a, &req);
                (a.0, r)
            };
            let calls = log.calls.iter().map(|c| json!(c.0)).collect();
            match res {
                Ok(resp) => {
                    let out = crate::with_cap!(cap, serialize_into_pub, &resp, &stale)
                        .ok_or_else(|| format!("capacity {} is not instantiated", cap))?;
                    (calls, out)
                }
                Err(e) => (calls, vec![e as u8]),
            }
        }
    };
    Ok(json!({"req": req_obs, "calls": calls, "buf": proj::bytes(&buf)}))
}

fn serialize_into_pub<const N: usize>(resp: &ctap2::Response, stale: &[u8]) -> Vec<u8> {
    crate::ops::serialize_into::<N>(resp, stale)
}


/// an authenticator that keeps the DEFAULT `version()` of the trait (the recording mocks override it)
pub struct FullAuthProbe;
impl ctap1::Authenticator for FullAuthProbe {
    fn register(&mut self, _r: &ctap1::register::Request<'_>) -> ctap1::Result<ctap1::register::Response> {
        Err(ctap1::Error::from(0x6985u16))
    }
    fn authenticate(&mut self, _r: &ctap1::authenticate::Request<'_>) -> ctap1::Result<ctap1::authenticate::Response> {
        Err(ctap1::Error::from(0x6985u16))
    }
}


/// A whole SESSION: several exchanges over ONE real transport buffer object that is reused from
/// exchange to exchange (the behaviours come from TLC's simulation of the session machine).
fn run_session<const N: usize>(steps: &[Value]) -> R<Vec<Value>> {
    let mut buffer = heapless::Vec::<u8, N>::new();
    let mut out = vec![];
    for st in steps {
        let wire = get_bytes(field(st, "wire")?)?;
        let script = field(st, "script")?;
        let fail = if get_bool(field(script, "ok")?)? { None } else { Some(field(script, "err")?.as_u64().ok_or("err")? as u16) };
        let has_lb = get_bool(field(st, "hasLb")?)?;
        let d = crate::ops::decode2_once(&wire);
        let req_obs = json!({"ok": d["ok"], "status": d["status"], "cmd": d["cmd"], "v": d["v"], "code": d["code"]});
        let mut calls: Vec<Value> = vec![];
        match ctap2::Request::deserialize(&wire) {
            Err(e) => { buffer.clear(); buffer.push(e as u8).ok(); }
            Ok(req) => {
                let (log, res) = if has_lb {
                    let mut a = FullAuth(Log { calls: vec![], fail });
                    let r = ctap2::Authenticator::call_ctap2(&mut a, &req);
                    (a.0, r)
                } else {
                    let mut a = NoLbAuth(Log { calls: vec![], fail });
                    let r = ctap2::Authenticator::call_ctap2(&mut a, &req);
                    (a.0, r)
                };
                calls = log.calls.iter().map(|c| json!(c.0)).collect();
                match res {
                    Ok(resp) => resp.serialize(&mut buffer),
                    Err(e) => { buffer.clear(); buffer.push(e as u8).ok(); }
                }
            }
        }
        out.push(json!({"req": req_obs, "calls": calls, "buf": proj::bytes(&buffer)}));
    }
    Ok(out)
}

pub fn session(inp: &Value) -> R<Value> {
    let cap = field(inp, "cap")?.as_u64().ok_or("cap")? as usize;
    let steps = field(inp, "steps")?.as_array().ok_or("steps")?.clone();
    let res = crate::with_cap!(cap, run_session, &steps).ok_or_else(|| format!("capacity {} is not instantiated", cap))??;
    Ok(json!({"steps": res}))
}
