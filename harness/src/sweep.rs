//! Whole-space sweeps judged against TLC-emitted tables.
//!
//!   sweep prefix <table.ndjson> <depth> <threads> <out.ndjson>
//!
//! The table maps every prefix the specification's byte-feeding automaton visited to its outcome
//! (ok, status, live, unspec).  Every byte string of length <= depth whose first byte is a table
//! root is decoded by the real code and compared with the entry of its longest decided prefix (a
//! table LOOKUP, not a re-implementation of the decoder).  Panics are data.
use ctap_types::ctap2;
use serde_json::{json, Value};
use std::collections::HashMap;
use std::io::{BufRead, Write};
use std::sync::atomic::{AtomicU64, Ordering};
use std::sync::{Arc, Mutex};

#[derive(Clone, Copy)]
struct Entry { ok: bool, status: u8, live: bool, unspec: bool }

fn real(wire: &[u8]) -> Result<(bool, u8), String> {
    let r = std::panic::catch_unwind(|| match ctap2::Request::deserialize(wire) {
        Ok(_) => (true, 0u8),
        Err(e) => (false, e as u8),
    });
    r.map_err(|_| crate::PANIC_MSG.lock().unwrap().clone())
}

struct Ctx {
    table: HashMap<Vec<u8>, Entry>,
    depth: usize,
    checked: AtomicU64,
    unspec: AtomicU64,
    mismatches: Mutex<Vec<Value>>,
}

impl Ctx {
    fn judge(&self, wire: &[u8], e: Entry, via: &[u8]) {
        self.checked.fetch_add(1, Ordering::Relaxed);
        let got = real(wire);
        let bad = match &got {
            Err(_) => true,
            Ok((ok, st)) => {
                if e.unspec {
                    self.unspec.fetch_add(1, Ordering::Relaxed);
                    !(*ok && *st == 0 || !*ok && [1u8, 0x12, 0x14].contains(st))
                } else {
                    *ok != e.ok || *st != e.status
                }
            }
        };
        if bad {
            let mut m = self.mismatches.lock().unwrap();
            if m.len() < 200 {
                m.push(json!({"wire": crate::proj::bytes(wire), "via": crate::proj::bytes(via),
                    "expected": {"ok": e.ok, "status": e.status, "unspec": e.unspec},
                    "got": match got { Ok((ok, st)) => json!({"ok": ok, "status": st}), Err(msg) => json!({"panic": msg}) }}));
            }
        }
    }

    /// all strings extending `p` (decided by entry e at prefix `via`) up to the depth
    fn subtree(&self, p: &mut Vec<u8>, e: Entry, via: &[u8]) {
        self.judge(p, e, via);
        if p.len() < self.depth {
            for x in 0..=255u8 {
                p.push(x);
                self.subtree(p, e, via);
                p.pop();
            }
        }
    }

    fn walk(&self, p: &mut Vec<u8>) {
        let e = match self.table.get(p.as_slice()) {
            Some(e) => *e,
            None => {
                let mut m = self.mismatches.lock().unwrap();
                m.push(json!({"wire": crate::proj::bytes(p), "tool": "prefix missing from the table"}));
                return;
            }
        };
        if e.live && !e.unspec {
            // the exact prefix is judged; its extensions are in the table (or beyond the depth)
            self.judge(p, e, p);
            if p.len() < self.depth {
                for x in 0..=255u8 {
                    p.push(x);
                    self.walk(p);
                    p.pop();
                }
            }
        } else {
            let via = p.clone();
            self.subtree(p, e, &via);
        }
    }
}

pub fn main(args: &[String]) -> i32 {
    if args.len() < 5 || args[0] != "prefix" {
        eprintln!("usage: sweep prefix <table.ndjson> <depth> <threads> <out.ndjson>");
        return 2;
    }
    let depth: usize = args[2].parse().expect("depth");
    let threads: usize = args[3].parse().expect("threads");
    let f = std::io::BufReader::new(std::fs::File::open(&args[1]).expect("open table"));
    let mut table = HashMap::new();
    let mut roots = vec![];
    for line in f.lines() {
        let v: Value = serde_json::from_str(&line.expect("read")).expect("json");
        let p: Vec<u8> = v["p"].as_array().unwrap().iter().map(|x| x.as_u64().unwrap() as u8).collect();
        if p.len() == 1 {
            roots.push(p[0]);
        }
        table.insert(p, Entry { ok: v["ok"].as_bool().unwrap(), status: v["status"].as_u64().unwrap() as u8,
                                 live: v["live"].as_bool().unwrap(), unspec: v["unspec"].as_bool().unwrap() });
    }
    let ctx = Arc::new(Ctx { table, depth, checked: AtomicU64::new(0), unspec: AtomicU64::new(0), mismatches: Mutex::new(vec![]) });
    // work items: (root, second byte) pairs, distributed over threads
    let mut items: Vec<Vec<u8>> = vec![];
    for r in &roots {
        items.push(vec![*r]);
    }
    let items = Arc::new(Mutex::new(items));
    // split live roots one level further for parallelism
    {
        let mut it = items.lock().unwrap();
        let mut next = vec![];
        for p in it.drain(..) {
            let e = ctx.table.get(&p).copied();
            match e {
                Some(e) if e.live && !e.unspec && depth >= 2 => {
                    ctx.judge(&p, e, &p);
                    for x in 0..=255u8 { let mut q = p.clone(); q.push(x); next.push(q); }
                }
                _ => next.push(p),
            }
        }
        *it = next;
    }
    let mut hs = vec![];
    for _ in 0..threads.max(1) {
        let (ctx, items) = (ctx.clone(), items.clone());
        hs.push(std::thread::Builder::new().stack_size(64 << 20).spawn(move || loop {
            let job = items.lock().unwrap().pop();
            match job {
                Some(mut p) => ctx.walk(&mut p),
                None => break,
            }
        }).unwrap());
    }
    for h in hs { h.join().ok(); }
    let mut w = std::io::BufWriter::new(std::fs::File::create(&args[4]).expect("create out"));
    let m = ctx.mismatches.lock().unwrap();
    for x in m.iter() {
        writeln!(w, "{}", x).unwrap();
    }
    writeln!(w, "{}", json!({"summary": true, "checked": ctx.checked.load(Ordering::Relaxed),
        "unspec": ctx.unspec.load(Ordering::Relaxed), "mismatches": m.len(), "table": ctx.table.len(), "depth": depth})).unwrap();
    w.flush().unwrap();
    0
}
