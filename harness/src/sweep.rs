//! whole-space sweeps
pub fn main(_args: &[String]) -> i32 {
    eprintln!("no sweeps yet");
    2
}
