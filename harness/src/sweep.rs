//! Whole-space sweeps judged against TLC-emitted tables.
//!
//!   sweep prefix <table.ndjson> <depth> <threads> <out.ndjson>
//!
//! The table maps every prefix the specification's byte-feeding automaton visited to its outcome
//! (ok, status, live, unspec).  Every byte string of length <= depth whose first byte is a table
//! root is decoded by the real code and compared with the entry of its longest decided prefix (a
//! table LOOKUP, not a re-implementation of the decoder).  Panics are data.
use ctap_types::ctap2;
use serde_json::{json, Value};
use std::collections::HashMap;
use std::io::{BufRead, Write};
use std::sync::atomic::{AtomicU64, Ordering};
use std::sync::{Arc, Mutex};

#[derive(Clone, Copy)]
struct Entry { ok: bool, status: u8, live: bool, unspec: bool }

fn real(wire: &[u8]) -> Result<(bool, u8), String> {
    let r = std::panic::catch_unwind(|| match ctap2::Request::deserialize(wire) {
        Ok(_) => (true, 0u8),
        Err(e) => (false, e as u8),
    });
    r.map_err(|_| crate::PANIC_MSG.lock().unwrap().clone())
}

struct Ctx {
    table: HashMap<Vec<u8>, Entry>,
    depth: usize,
    checked: AtomicU64,
    unspec: AtomicU64,
    mismatches: Mutex<Vec<Value>>,
}

impl Ctx {
    fn judge(&self, wire: &[u8], e: Entry, via: &[u8]) {
        self.checked.fetch_add(1, Ordering::Relaxed);
        let got = real(wire);
        let bad = match &got {
            Err(_) => true,
            Ok((ok, st)) => {
                if e.unspec {
                    self.unspec.fetch_add(1, Ordering::Relaxed);
                    !(*ok && *st == 0 || !*ok && [1u8, 0x12, 0x14].contains(st))
                } else {
                    *ok != e.ok || *st != e.status
                }
            }
        };
        if bad {
            let mut m = self.mismatches.lock().unwrap();
            if m.len() < 200 {
                m.push(json!({"wire": crate::proj::bytes(wire), "via": crate::proj::bytes(via),
                    "expected": {"ok": e.ok, "status": e.status, "unspec": e.unspec},
                    "got": match got { Ok((ok, st)) => json!({"ok": ok, "status": st}), Err(msg) => json!({"panic": msg}) }}));
            }
        }
    }

    /// all strings extending `p` (decided by entry e at prefix `via`) up to the depth
    fn subtree(&self, p: &mut Vec<u8>, e: Entry, via: &[u8]) {
        self.judge(p, e, via);
        if p.len() < self.depth {
            for x in 0..=255u8 {
                p.push(x);
                self.subtree(p, e, via);
                p.pop();
            }
        }
    }

    fn walk(&self, p: &mut Vec<u8>) {
        let e = match self.table.get(p.as_slice()) {
            Some(e) => *e,
            None => {
                let mut m = self.mismatches.lock().unwrap();
                m.push(json!({"wire": crate::proj::bytes(p), "tool": "prefix missing from the table"}));
                return;
            }
        };
        if e.live && !e.unspec {
            // the exact prefix is judged; its extensions are in the table (or beyond the depth)
            self.judge(p, e, p);
            if p.len() < self.depth {
                for x in 0..=255u8 {
                    p.push(x);
                    self.walk(p);
                    p.pop();
                }
            }
        } else {
            let via = p.clone();
            self.subtree(p, e, &via);
        }
    }
}

// ------------------------------------------------------------------------------------------
//   sweep enumstr <vectors.ndjson> <log2 tries per table and length> <threads> <out.ndjson>
//
// The identifier tables accept EXACTLY their listed spellings.  The listed spellings are read from
// the TLC-emitted vectors (op enum_str whose expectation is `ok`); then, for every table,
//   * every string of up to three bytes over 0x00..0x7F, every four-byte string over the
//     printable characters, and
//   * for every length a listed name has, 2^k strings of that length: random over the name
//     alphabet, and listed names with 1..4 positions re-drawn
// go through TryFrom<&str>; a string is accepted iff it is listed (and converts back to itself).
// A look-up that compares less than the whole string (a hash, a prefix, a length) accepts
// something in this space long before the space is exhausted.
// ------------------------------------------------------------------------------------------
fn lookup(table: &str, s: &str) -> Option<&'static str> {
    use ctap_types::ctap2::get_info;
    match table {
        "Version" => get_info::Version::try_from(s).ok().map(|v| v.into()),
        "Extension" => get_info::Extension::try_from(s).ok().map(|v| v.into()),
        "Transport" => get_info::Transport::try_from(s).ok().map(|v| v.into()),
        "Format" => ctap2::AttestationStatementFormat::try_from(s).ok().map(|v| v.into()),
        _ => None,
    }
}

fn enumstr(args: &[String]) -> i32 {
    let log2: u32 = args[2].parse().expect("log2 tries");
    let threads: usize = args[3].parse().expect("threads");
    let f = std::io::BufReader::new(std::fs::File::open(&args[1]).expect("open vectors"));
    let mut names: HashMap<String, Vec<String>> = HashMap::new();
    for line in f.lines() {
        let v: Value = match serde_json::from_str(&line.expect("read")) { Ok(v) => v, Err(_) => continue };
        if v["op"] == "enum_str" && v["exp"]["ok"] == true {
            let b: Vec<u8> = v["s"].as_array().unwrap().iter().map(|x| x.as_u64().unwrap() as u8).collect();
            let e = names.entry(v["table"].as_str().unwrap().to_string()).or_default();
            let s = String::from_utf8(b).expect("listed names are UTF-8");
            if !e.contains(&s) { e.push(s); }
        }
    }
    let names = Arc::new(names);
    let checked = Arc::new(AtomicU64::new(0));
    let mism: Arc<Mutex<Vec<Value>>> = Arc::new(Mutex::new(vec![]));
    // work items: (table, kind, parameter)
    let mut items: Vec<(String, u8, usize, u64)> = vec![];
    let mut tables: Vec<&String> = names.keys().collect();
    tables.sort();
    for t in tables {
        for first in 0..128usize { items.push((t.clone(), 0, first, 0)); }          // short strings, by first byte
        let mut lens: Vec<usize> = names[t].iter().map(|n| n.len()).collect();
        lens.sort(); lens.dedup();
        let chunks = 64u64;
        for l in lens {
            for c in 0..chunks { items.push((t.clone(), 1, l, c)); }
        }
    }
    let per_chunk: u64 = (1u64 << log2) / 64;
    let items = Arc::new(Mutex::new(items));
    let mut hs = vec![];
    for _ in 0..threads.max(1) {
        let (names, checked, mism, items) = (names.clone(), checked.clone(), mism.clone(), items.clone());
        hs.push(std::thread::spawn(move || {
            let judge = |t: &str, s: &str, listed: &Vec<String>, n: &mut u64| {
                *n += 1;
                let got = std::panic::catch_unwind(|| lookup(t, s));
                let want = listed.iter().any(|x| x == s);
                let bad = match got { Err(_) => true, Ok(g) => g.is_some() != want || (want && g != Some(s)) };
                if bad {
                    let mut m = mism.lock().unwrap();
                    if m.len() < 100 { m.push(json!({"table": t, "s": crate::proj::bytes(s.as_bytes())})); }
                }
            };
            loop {
                let job = items.lock().unwrap().pop();
                let (t, kind, a, c) = match job { Some(j) => j, None => break };
                let listed = &names[&t];
                let mut n = 0u64;
                if kind == 0 {
                    let first = a as u8;
                    let mut buf = [first, 0, 0, 0];
                    if first == 0 { judge(&t, "", listed, &mut n); }
                    judge(&t, std::str::from_utf8(&buf[..1]).unwrap(), listed, &mut n);
                    for b in 0..128u8 {
                        buf[1] = b;
                        judge(&t, std::str::from_utf8(&buf[..2]).unwrap(), listed, &mut n);
                        for c2 in 0..128u8 {
                            buf[2] = c2;
                            judge(&t, std::str::from_utf8(&buf[..3]).unwrap(), listed, &mut n);
                            if (0x20..0x7F).contains(&first) && (0x20..0x7F).contains(&b) && (0x20..0x7F).contains(&c2) {
                                for d in 0x20..0x7Fu8 {
                                    buf[3] = d;
                                    judge(&t, std::str::from_utf8(&buf[..4]).unwrap(), listed, &mut n);
                                }
                            }
                        }
                    }
                } else {
                    const ALPHA: &[u8] = b"ABCDEFGHIJKLMNOPQRSTUVWXYZabcdefghijklmnopqrstuvwxyz0123456789_-";
                    let mut rng = crate::drive::Rng(0x9E37_79B9_7F4A_7C15 ^ ((a as u64) << 32) ^ c ^ (t.len() as u64) << 48);
                    let of_len: Vec<&String> = listed.iter().filter(|x| x.len() == a).collect();
                    if c == 0 {
                        // listed names with ONE character replaced by a multi-byte character that agrees
                        // with it modulo 2^8 (and modulo 2^7), as is and with trailing characters dropped
                        // so that the BYTE length is that of the listed name: a comparison through a
                        // narrower type, or by characters against bytes, accepts these
                        for name in of_len.iter() {
                            let chars: Vec<char> = name.chars().collect();
                            for p in 0..chars.len() {
                                for k in (1u32..=16).chain([31, 32, 255, 256, 4351]) {
                                    for step in [128u32, 256] {
                                        let cp = chars[p] as u32 + step * k;
                                        let ch = match char::from_u32(cp) { Some(ch) => ch, None => continue };
                                        let mut v = chars.clone();
                                        v[p] = ch;
                                        let s1: String = v.iter().collect();
                                        judge(&t, &s1, listed, &mut n);
                                        let mut w = v.clone();
                                        while w.len() > p + 1 && w.iter().map(|c| c.len_utf8()).sum::<usize>() > name.len() { w.pop(); }
                                        let s2: String = w.iter().collect();
                                        judge(&t, &s2, listed, &mut n);
                                    }
                                }
                            }
                        }
                    }
                    let mut buf = vec![b'a'; a];
                    for i in 0..per_chunk {
                        if i % 4 == 0 && !of_len.is_empty() {
                            // a listed name with 1..4 positions re-drawn
                            buf.copy_from_slice(of_len[(i / 4) as usize % of_len.len()].as_bytes());
                            let k = 1 + (rng.next() % 4) as usize;
                            for _ in 0..k { let p = (rng.next() % a as u64) as usize; buf[p] = ALPHA[(rng.next() % 64) as usize]; }
                        } else {
                            let mut r = 0u64;
                            for (j, x) in buf.iter_mut().enumerate() {
                                if j % 10 == 0 { r = rng.next(); }
                                *x = ALPHA[(r & 63) as usize];
                                r >>= 6;
                            }
                        }
                        judge(&t, std::str::from_utf8(&buf).unwrap(), listed, &mut n);
                    }
                }
                checked.fetch_add(n, Ordering::Relaxed);
            }
        }));
    }
    for h in hs { h.join().ok(); }
    let mut w = std::io::BufWriter::new(std::fs::File::create(&args[4]).expect("create out"));
    let m = mism.lock().unwrap();
    for x in m.iter() { writeln!(w, "{}", x).unwrap(); }
    let listed: usize = names.values().map(|v| v.len()).sum();
    writeln!(w, "{}", json!({"summary": true, "checked": checked.load(Ordering::Relaxed), "mismatches": m.len(),
        "table": listed, "unspec": 0})).unwrap();
    w.flush().unwrap();
    0
}

pub fn main(args: &[String]) -> i32 {
    if args.len() >= 5 && args[0] == "enumstr" {
        return enumstr(args);
    }
    if args.len() < 5 || args[0] != "prefix" {
        eprintln!("usage: sweep prefix <table.ndjson> <depth> <threads> <out.ndjson>");
        return 2;
    }
    let depth: usize = args[2].parse().expect("depth");
    let threads: usize = args[3].parse().expect("threads");
    let f = std::io::BufReader::new(std::fs::File::open(&args[1]).expect("open table"));
    let mut table = HashMap::new();
    let mut roots = vec![];
    for line in f.lines() {
        let v: Value = serde_json::from_str(&line.expect("read")).expect("json");
        let p: Vec<u8> = v["p"].as_array().unwrap().iter().map(|x| x.as_u64().unwrap() as u8).collect();
        if p.len() == 1 {
            roots.push(p[0]);
        }
        table.insert(p, Entry { ok: v["ok"].as_bool().unwrap(), status: v["status"].as_u64().unwrap() as u8,
                                 live: v["live"].as_bool().unwrap(), unspec: v["unspec"].as_bool().unwrap() });
    }
    let ctx = Arc::new(Ctx { table, depth, checked: AtomicU64::new(0), unspec: AtomicU64::new(0), mismatches: Mutex::new(vec![]) });
    // work items: (root, second byte) pairs, distributed over threads
    let mut items: Vec<Vec<u8>> = vec![];
    for r in &roots {
        items.push(vec![*r]);
    }
    let items = Arc::new(Mutex::new(items));
    // split live roots one level further for parallelism
    {
        let mut it = items.lock().unwrap();
        let mut next = vec![];
        for p in it.drain(..) {
            let e = ctx.table.get(&p).copied();
            match e {
                Some(e) if e.live && !e.unspec && depth >= 2 => {
                    ctx.judge(&p, e, &p);
                    for x in 0..=255u8 { let mut q = p.clone(); q.push(x); next.push(q); }
                }
                _ => next.push(p),
            }
        }
        *it = next;
    }
    let mut hs = vec![];
    for _ in 0..threads.max(1) {
        let (ctx, items) = (ctx.clone(), items.clone());
        hs.push(std::thread::Builder::new().stack_size(64 << 20).spawn(move || loop {
            let job = items.lock().unwrap().pop();
            match job {
                Some(mut p) => ctx.walk(&mut p),
                None => break,
            }
        }).unwrap());
    }
    for h in hs { h.join().ok(); }
    let mut w = std::io::BufWriter::new(std::fs::File::create(&args[4]).expect("create out"));
    let m = ctx.mismatches.lock().unwrap();
    for x in m.iter() {
        writeln!(w, "{}", x).unwrap();
    }
    writeln!(w, "{}", json!({"summary": true, "checked": ctx.checked.load(Ordering::Relaxed),
        "unspec": ctx.unspec.load(Ordering::Relaxed), "mismatches": m.len(), "table": ctx.table.len(), "depth": depth})).unwrap();
    w.flush().unwrap();
    0
}
