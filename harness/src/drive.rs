//! seeded drivers (impl -> spec traces)
pub fn main(_driver: &str, _seed: u64, _n: u64, _out: &str) -> i32 {
    eprintln!("no drivers yet");
    2
}
