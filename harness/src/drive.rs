//! Seeded drivers (impl -> spec): run the real code on generated inputs and record one event per
//! public call.  The inputs are derived from TLC-generated seed vectors by byte-level mutation
//! (decoders) or by value-level mutation of the abstract records (encoders); the oracle for every
//! recorded event is the trace specification, not this file.
use serde_json::{json, Value};
use std::io::{BufRead, Write};

pub struct Rng(pub u64);
impl Rng {
    pub fn next(&mut self) -> u64 {
        // splitmix64
        self.0 = self.0.wrapping_add(0x9E3779B97F4A7C15);
        let mut z = self.0;
        z = (z ^ (z >> 30)).wrapping_mul(0xBF58476D1CE4E5B9);
        z = (z ^ (z >> 27)).wrapping_mul(0x94D049BB133111EB);
        z ^ (z >> 31)
    }
    pub fn below(&mut self, n: usize) -> usize {
        if n == 0 { 0 } else { (self.next() % n as u64) as usize }
    }
    pub fn byte(&mut self) -> u8 {
        self.next() as u8
    }
}

const INTERESTING: [u8; 24] = [0x00, 0x01, 0x17, 0x18, 0x19, 0x1A, 0x1B, 0x1F, 0x20, 0x38, 0x40, 0x58, 0x5F, 0x60, 0x78, 0x7F, 0x80, 0x9F, 0xA0, 0xBF, 0xC0, 0xF4, 0xF6, 0xFF];

pub fn mutate_bytes(rng: &mut Rng, b: &mut Vec<u8>, others: &[Vec<u8>]) {
    let n = 1 + rng.below(3);
    for _ in 0..n {
        match rng.below(9) {
            0 if !b.is_empty() => { let i = rng.below(b.len()); b[i] ^= 1 << rng.below(8); }
            1 if !b.is_empty() => { let i = rng.below(b.len()); b[i] = INTERESTING[rng.below(INTERESTING.len())]; }
            2 if !b.is_empty() => { let i = rng.below(b.len()); b[i] = rng.byte(); }
            3 => { let i = rng.below(b.len() + 1); b.insert(i, INTERESTING[rng.below(INTERESTING.len())]); }
            4 if !b.is_empty() => { let i = rng.below(b.len()); b.remove(i); }
            5 if !b.is_empty() => { let i = rng.below(b.len()); b.truncate(i); }
            6 if !b.is_empty() => {
                // duplicate a slice
                let i = rng.below(b.len()); let l = 1 + rng.below((b.len() - i).min(24));
                let s: Vec<u8> = b[i..i + l].to_vec(); let j = rng.below(b.len() + 1);
                for (k, x) in s.into_iter().enumerate() { b.insert(j + k, x); }
            }
            7 if !others.is_empty() && !b.is_empty() => {
                // splice a slice of another seed
                let o = &others[rng.below(others.len())];
                if !o.is_empty() {
                    let i = rng.below(o.len()); let l = 1 + rng.below((o.len() - i).min(40));
                    let j = rng.below(b.len());
                    let end = (j + l).min(b.len());
                    b.splice(j..end, o[i..i + l].iter().cloned());
                }
            }
            _ if b.len() >= 2 => {
                // increment / decrement a byte (length heads, counts)
                let i = rng.below(b.len());
                b[i] = if rng.below(2) == 0 { b[i].wrapping_add(1) } else { b[i].wrapping_sub(1) };
            }
            _ => {}
        }
    }
    b.truncate(7609);
}

/// value-level mutation of an abstract record (encoder inputs)
fn mutate_value(rng: &mut Rng, v: &mut Value, depth: usize) {
    match v {
        Value::Array(a) => {
            let is_bytes = !a.is_empty() && a.iter().all(|x| x.as_u64().map(|n| n < 256).unwrap_or(false));
            if is_bytes {
                match rng.below(5) {
                    0 => { let i = rng.below(a.len()); a[i] = json!(rng.byte()); }
                    1 => { a.pop(); }
                    2 => { a.push(json!(rng.byte())); }
                    3 => { let n = rng.below(a.len() + 1); a.truncate(n); }
                    _ => { for x in a.iter_mut() { *x = json!(rng.byte()); } }
                }
            } else if a.len() == 1 && rng.below(4) == 0 {
                a.clear(); // drop an optional member
            } else if !a.is_empty() {
                let i = rng.below(a.len());
                mutate_value(rng, &mut a[i], depth + 1);
            }
        }
        Value::Object(m) => {
            if m.is_empty() { return; }
            let keys: Vec<String> = m.keys().cloned().collect();
            let k = &keys[rng.below(keys.len())];
            if k == "kind" || k == "variant" || k == "flavour" || k == "packed" { return; }
            mutate_value(rng, m.get_mut(k).unwrap(), depth + 1);
        }
        Value::Bool(b) => { *b = !*b; }
        Value::Number(n) => {
            if let Some(x) = n.as_i64() {
                let nx = match rng.below(4) { 0 => x + 1, 1 => x - 1, 2 => 0, _ => 255 };
                *v = json!(nx.clamp(-2147483648, 2147483647));
            }
        }
        _ => {}
    }
}

fn wire_field(op: &str) -> Option<&'static str> {
    match op {
        "decode2" | "apdu" => Some("wire"),
        "decode_type" => Some("bytes"),
        _ => None,
    }
}

fn get_bytes(v: &Value) -> Vec<u8> {
    v.as_array().map(|a| a.iter().map(|x| x.as_u64().unwrap_or(0) as u8).collect()).unwrap_or_default()
}

/// `mutate`: seeds file (TLC vectors) -> mutated inputs -> events
fn mutate(seeds: &str, seed: u64, n: u64, out: &str) -> i32 {
    let f = std::io::BufReader::new(std::fs::File::open(seeds).expect("open seeds"));
    let seeds: Vec<Value> = f.lines().filter_map(|l| serde_json::from_str(&l.ok()?).ok()).collect();
    if seeds.is_empty() {
        eprintln!("no seeds");
        return 2;
    }
    let wires: Vec<Vec<u8>> = seeds.iter().filter_map(|s| {
        let op = s.get("op")?.as_str()?;
        wire_field(op).map(|f| get_bytes(&s[f]))
    }).collect();
    let mut rng = Rng(seed ^ 0xC7A9_0000);
    let mut w = std::io::BufWriter::new(std::fs::File::create(out).expect("create out"));
    let (mut written, mut attempts) = (0u64, 0u64);
    while written < n && attempts < n * 20 {
        attempts += 1;
        let mut inp = seeds[rng.below(seeds.len())].clone();
        let op = inp["op"].as_str().unwrap_or("").to_string();
        if let Some(m) = inp.as_object_mut() {
            m.remove("exp");
            m.insert("tag".into(), json!("mutated"));
        }
        match wire_field(&op) {
            Some(f) => {
                let mut b = get_bytes(&inp[f]);
                mutate_bytes(&mut rng, &mut b, &wires);
                inp[f] = crate::proj::bytes(&b);
            }
            None => {
                let keys = ["resp", "v", "in", "pre"];
                let present: Vec<&str> = keys.iter().cloned().filter(|k| inp.get(*k).is_some()).collect();
                if present.is_empty() { continue; }
                let k = present[rng.below(present.len())];
                let mut sub = inp[k].clone();
                mutate_value(&mut rng, &mut sub, 0);
                inp[k] = sub;
            }
        }
        std::fs::write(format!("{}.pending", out), inp.to_string()).ok();
        let res = crate::guarded(&op, &inp);
        if res["outcome"] == "toolerr" {
            continue; // the mutated value is not representable (over capacity): not an event
        }
        let ev = json!({"line": written, "op": op, "outcome": res["outcome"], "obs": res["obs"], "msg": res.get("msg").cloned().unwrap_or(json!("")), "in": inp});
        writeln!(w, "{}", ev).unwrap();
        w.flush().unwrap();
        written += 1;
    }
    w.flush().unwrap();
    0
}

/// `arbitrary`: byte strings for the Arbitrary implementations
#[cfg(feature = "arbitrary")]
fn arbitrary_driver(seed: u64, n: u64, out: &str) -> i32 {
    let mut rng = Rng(seed ^ 0xA4B1_7A47);
    let mut w = std::io::BufWriter::new(std::fs::File::create(out).expect("create out"));
    let lens = [0usize, 1, 2, 3, 7, 8, 31, 32, 33, 63, 64, 65, 127, 128, 129, 255, 256, 1024, 4096];
    let gens = ["ctap2", "ctap1", "combined"];
    let mut inputs: Vec<Vec<u8>> = vec![];
    // structured corner inputs
    for &l in &lens {
        inputs.push(vec![0u8; l]);
        inputs.push(vec![0xFFu8; l]);
    }
    for b in 0..=255u8 {
        inputs.push(vec![b; 96]);
        inputs.push(vec![b; 700]);
    }
    // random strings biased towards UTF-8 lead / continuation bytes and ill-formed sequences
    let special: [u8; 16] = [0x00, 0x01, 0x7F, 0x80, 0xBF, 0xC0, 0xC2, 0xDF, 0xE0, 0xED, 0xEF, 0xF0, 0xF4, 0xF5, 0xFE, 0xFF];
    while (inputs.len() as u64) < n {
        let l = if rng.below(3) == 0 { lens[rng.below(lens.len())] } else { rng.below(1500) };
        let mode = rng.below(4);
        let v: Vec<u8> = (0..l).map(|_| match mode {
            0 => rng.byte(),
            1 => if rng.below(3) == 0 { special[rng.below(16)] } else { rng.byte() },
            2 => if rng.below(2) == 0 { 0xFF } else { rng.byte() },
            _ => if rng.below(4) == 0 { 0x01 } else { special[rng.below(16)] },
        }).collect();
        inputs.push(v);
    }
    // token streams: the generators read length prefixes (8-byte little-endian), option / variant
    // selectors (1 byte) and text; small prefixes followed by UTF-8-hostile text reach the paths a
    // uniformly random stream (whose prefixes are always clamped to the capacity) never takes
    let hostile: [&[u8]; 14] = [b"\xC3\xA9", b"\xE2\x82\xAC", b"\xF0\x9F\x98\x80", b"\xED\xA0\x80", b"\xE0\x80\x80",
        b"\xF0\x80\x80\x80", b"\xF4\x90\x80\x80", b"\xC0\x80", b"\x80", b"\xF0\x9F\x98", b"\xE2\x82", b"\xC3", b"\xEF\xBF\xBF", b"\xF4\x8F\xBF\xBF"];
    let small: [u64; 16] = [0, 1, 2, 3, 4, 7, 30, 31, 32, 33, 61, 62, 63, 64, 65, 66];
    let caps: [u64; 12] = [125, 126, 127, 128, 129, 253, 254, 255, 256, 257, 300, 1000];
    let extra = (n / 2) as usize;
    for k in 0..extra {
        let mut v: Vec<u8> = vec![];
        // a command selector first so that the text-bearing variants are reached often
        if k % 2 == 0 { v.extend_from_slice(&[0, 0, 0, 0]); } else { v.push(rng.byte()); v.push(rng.byte()); }
        let toks = 6 + rng.below(40);
        for _ in 0..toks {
            match rng.below(7) {
                0 => v.extend_from_slice(&small[rng.below(16)].to_le_bytes()),
                1 => v.extend_from_slice(&caps[rng.below(12)].to_le_bytes()),
                2 => v.extend_from_slice(hostile[rng.below(14)]),
                3 => { let l = rng.below(130); for _ in 0..l { v.push(b'a' + (rng.below(26) as u8)); } }
                4 => { let l = 60 + rng.below(8); for _ in 0..l { v.push(b'a'); } v.extend_from_slice(hostile[rng.below(14)]); }
                5 => v.push(rng.byte() & 1),
                _ => v.push(rng.byte()),
            }
        }
        // long ASCII runs ending in a (possibly split) multi-byte character right at a capacity
        if rng.below(3) == 0 {
            let l = [61usize, 62, 63, 125, 126, 127, 253, 254, 255][rng.below(9)];
            for _ in 0..l { v.push(b'b'); }
            v.extend_from_slice(hostile[rng.below(14)]);
            v.extend_from_slice(&[0u8; 24]);
        }
        inputs.insert(k * 2 % (inputs.len().max(1)), v);
    }
    // maximal requests and single-position sweeps over them: a stream of 0x01 bytes makes every
    // option Some, every list and string as long as its capacity allows; a 4-byte selector picks
    // the request variant; then each position in turn is replaced by a few other values, so that
    // every decision point of the generators (selectors, list lengths, string lengths, trailing
    // members) is varied one at a time
    let mut sweeps: Vec<Vec<u8>> = vec![];
    let budget = (n / 3) as usize;
    let selectors: Vec<[u8; 4]> = (0..10u64).map(|k| (((k << 32) / 10 + 1) as u32).to_le_bytes()).collect();
    let vals: [u8; 6] = [0x00, 0x02, 0x03, 0x80, 0xC3, 0xFF];
    'outer: for (si, sel) in selectors.iter().enumerate() {
        for fill in [0x01u8, 0x03, 0x61] {
            let mut base = sel.to_vec();
            base.extend(std::iter::repeat(fill).take(3000));
            sweeps.push(base.clone());
            // the text-bearing variants (MakeCredential = 0, GetAssertion = 1) get the position sweep
            if si <= 1 && fill == 0x01 {
                let stride = 1 + (3000 * vals.len() * 2) / budget.max(1);
                let mut p = 4;
                while p < 3000 {
                    for v in vals {
                        let mut b = base.clone();
                        b[p] = v;
                        sweeps.push(b);
                        if sweeps.len() >= budget { break 'outer; }
                    }
                    p += stride;
                }
            }
        }
    }
    // the string WINDOW: the first text of a MakeCredential request (rp.id) reads an 8-byte length n
    // and looks at the next n bytes.  Windows that end right after a lead byte, after the second
    // and after the third byte of a character, for every class of lead byte and of the byte that
    // follows the window (the restricted second bytes of E0 / ED / F0 / F4 among them): whatever
    // lies beyond the window must not become part of the text
    let mut front: Vec<Vec<u8>> = vec![];
    let leads: [u8; 17] = [0xC2, 0xDF, 0xE0, 0xE1, 0xEC, 0xED, 0xEE, 0xEF, 0xF0, 0xF1, 0xF3, 0xF4, 0xF5, 0xC0, 0xC1, 0x80, 0xFF];
    let nexts: [u8; 8] = [0x80, 0x8F, 0x90, 0x9F, 0xA0, 0xBF, 0x7F, 0xC0];
    for win in [1usize, 4, 64] {
        for inside in 1..=3usize {
            // `inside` bytes of the character lie inside the window
            if inside > win { continue; }
            for lead in leads {
                for next in nexts {
                    let mut b = vec![0u8, 0, 0, 0];
                    b.extend_from_slice(&(win as u64).to_le_bytes());
                    b.extend(std::iter::repeat(b'a').take(win - inside));
                    b.push(lead);
                    b.push(next);
                    b.extend_from_slice(&[0x80, 0x80, 0x80]);
                    // rp.name: Some, a short plain text; everything after it absent / empty
                    b.push(1);
                    b.extend_from_slice(&3u64.to_le_bytes());
                    b.extend_from_slice(b"abc");
                    b.extend_from_slice(&[0u8; 64]);
                    front.push(b);
                }
            }
        }
    }
    // the same maximal requests with every text made of multi-byte characters, at every alignment:
    // capacity cuts and fixed-offset slices then fall inside characters
    for sel in selectors.iter().take(7) {
        // (the last seven change their length under a case mapping or a normalisation: U+0130, U+023A,
        // sharp s, the fi ligature, the Kelvin sign, capital sharp s, the Ohm sign)
        for ch in [&b"\xC3\xA9"[..], &b"\xE2\x82\xAC"[..], &b"\xF0\x9F\x98\x81"[..], &b"\xC4\xB0"[..], &b"\xC8\xBA"[..], &b"\xC3\x9F"[..],
                   &b"\xEF\xAC\x81"[..], &b"\xE2\x84\xAA"[..], &b"\xE1\xBA\x9E"[..], &b"\xE2\x84\xA6"[..]] {
            for lead in 0..4usize {
                for tail in [0usize, 1, 2, 5] {
                    let mut b = sel.to_vec();
                    b.extend(std::iter::repeat(b'a').take(lead));
                    while b.len() < 2600 { b.extend_from_slice(ch); }
                    // the lengths of borrowed strings and byte strings are read from the END of the input
                    b.extend(std::iter::repeat(0x01u8).take(tail));
                    b.extend_from_slice(&[40, 33, 35, 64][..(lead % 4) + 1]);
                    front.push(b);
                }
            }
        }
    }
    for (k, v) in sweeps.into_iter().enumerate() {
        let at = (k * 3) % (inputs.len().max(1));
        inputs.insert(at, v);
    }
    // the window sweep is complete in every run; the rest fills the budget
    front.extend(inputs);
    let inputs = front;
    let mut line = 0u64;
    for data in inputs.iter().take(n as usize) {
        for g in gens {
            let inp = json!({"op": "arbitrary", "tag": "arbitrary", "gen": g, "data": crate::proj::bytes(data)});
            std::fs::write(format!("{}.pending", out), inp.to_string()).ok();
            let res = crate::guarded("arbitrary", &inp);
            let ev = json!({"line": line, "op": "arbitrary", "outcome": res["outcome"], "obs": res["obs"],
                            "msg": res.get("msg").cloned().unwrap_or(json!("")), "in": inp});
            writeln!(w, "{}", ev).unwrap();
            w.flush().unwrap();
            line += 1;
        }
    }
    w.flush().unwrap();
    0
}

pub fn main(driver: &str, seed: u64, n: u64, out: &str) -> i32 {
    if let Some(seeds) = driver.strip_prefix("mutate:") {
        return mutate(seeds, seed, n, out);
    }
    match driver {
        #[cfg(feature = "arbitrary")]
        "arbitrary" => arbitrary_driver(seed, n, out),
        _ => {
            eprintln!("unknown driver {}", driver);
            2
        }
    }
}
