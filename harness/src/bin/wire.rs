//! ctv-wire: a second, deliberately thin harness that touches NO struct field of `ctap-types`:
//! only type paths, `cbor_deserialize`, `cbor_serialize` and `Request::deserialize`.  It keeps
//! building when a member of a public struct is renamed, removed or feature-gated (which breaks
//! the projection code of the main harness), so that such a change is still judged on the wire.
//!
//!   ctv-wire replay <in.ndjson> <out.ndjson>
//! ops: decode2 (ok, status), decode_type (ok, err, reenc).  Only these fields are compared.
use ctap_types::ctap2::{self, client_pin, credential_management, get_assertion, get_info, large_blobs, make_credential};
use ctap_types::serde::{cbor_deserialize, cbor_serialize};
use ctap_types::webauthn::*;
use serde_json::{json, Value};
use std::io::{BufRead, Write};

fn get_bytes(v: &Value) -> Vec<u8> {
    v.as_array().map(|a| a.iter().map(|x| x.as_u64().unwrap_or(0) as u8).collect()).unwrap_or_default()
}
fn bytes(b: &[u8]) -> Value {
    Value::Array(b.iter().map(|x| Value::from(*x)).collect())
}
fn err(e: ctap_types::serde::Error) -> &'static str {
    match e {
        ctap_types::serde::Error::SerdeMissingField => "missing",
        _ => "invalid",
    }
}

fn reencode(ty: &str, b: &[u8]) -> Option<Value> {
    macro_rules! rt {
        ($t:ty) => {
            match cbor_deserialize::<$t>(b) {
                Ok(v) => {
                    let mut buf = vec![0u8; 16384];
                    match cbor_serialize(&v, &mut buf) {
                        Ok(s) => json!({"ok": true, "err": "", "reenc": [bytes(s)]}),
                        Err(_) => json!({"ok": true, "err": "", "reenc": []}),
                    }
                }
                Err(e) => json!({"ok": false, "err": err(e), "reenc": []}),
            }
        };
    }
    Some(match ty {
        "Rp" => rt!(PublicKeyCredentialRpEntity),
        "User" => rt!(PublicKeyCredentialUserEntity),
        "Desc" => rt!(PublicKeyCredentialDescriptor),
        "Param" => rt!(PublicKeyCredentialParameters),
        "Params" => rt!(FilteredPublicKeyCredentialParameters),
        "AuthOptions" => rt!(ctap2::AuthenticatorOptions),
        "McExt" => rt!(make_credential::Extensions),
        "GaExtIn" => rt!(get_assertion::ExtensionsInput),
        "HmacIn" => rt!(get_assertion::HmacSecretInput),
        "GaExtOut" => rt!(get_assertion::ExtensionsOutput),
        "GetInfoResp" => rt!(get_info::Response),
        "GetInfoOptions" => rt!(get_info::CtapOptions),
        #[cfg(feature = "get-info-full")]
        "Certifications" => rt!(get_info::Certifications),
        "CpResp" => rt!(client_pin::Response),
        "LbResp" => rt!(large_blobs::Response),
        "CpReq" => rt!(client_pin::Request),
        "CmReq" => rt!(credential_management::Request),
        "CmParams" => rt!(credential_management::SubcommandParameters),
        "LbReq" => rt!(large_blobs::Request),
        _ => return None,
    })
}

fn main() {
    let args: Vec<String> = std::env::args().collect();
    if args.len() < 4 || args[1] != "replay" {
        eprintln!("usage: ctv-wire replay <in> <out>");
        std::process::exit(2);
    }
    std::panic::set_hook(Box::new(|_| {}));
    let fin = std::io::BufReader::new(std::fs::File::open(&args[2]).expect("open"));
    let mut out = std::io::BufWriter::new(std::fs::File::create(&args[3]).expect("create"));
    let (mut n, mut compared, mut matched, mut mismatched, mut skipped) = (0u64, 0u64, 0u64, 0u64, 0u64);
    for (i, line) in fin.lines().enumerate() {
        let line = line.expect("read");
        if line.trim().is_empty() { continue; }
        let v: Value = serde_json::from_str(&line).expect("json");
        let op = v["op"].as_str().unwrap_or("");
        let res = std::panic::catch_unwind(|| match op {
            "decode2" => {
                let w = get_bytes(&v["wire"]);
                let r = match ctap2::Request::deserialize(&w) {
                    Ok(_) => json!({"ok": true, "status": 0}),
                    Err(e) => json!({"ok": false, "status": e as u8}),
                };
                Some(r)
            }
            "decode_type" => reencode(v["type"].as_str().unwrap_or(""), &get_bytes(&v["bytes"])),
            _ => None,
        });
        n += 1;
        let (outcome, obs) = match res {
            Ok(Some(o)) => ("return", o),
            Ok(None) => { skipped += 1; continue; }
            Err(_) => ("panic", json!({})),
        };
        let mut diff = vec![];
        if let Some(exp) = v.get("exp").and_then(|e| e.as_object()) {
            compared += 1;
            if outcome != "return" {
                diff.push("outcome".to_string());
            } else if let Some(o) = obs.as_object() {
                for (k, ov) in o {
                    if let Some(ev) = exp.get(k) {
                        if ev != ov { diff.push(k.clone()); }
                    }
                }
            }
            if diff.is_empty() { matched += 1; } else { mismatched += 1; }
        }
        if !diff.is_empty() || outcome != "return" {
            writeln!(out, "{}", json!({"line": i, "op": op, "outcome": outcome, "obs": obs, "diff": diff, "match": false, "vector": v})).unwrap();
            out.flush().unwrap();
        }
    }
    writeln!(out, "{}", json!({"summary": true, "n": n, "compared": compared, "matched": matched, "mismatched": mismatched,
        "skipped": skipped, "toolerr": 0, "panics": 0})).unwrap();
    out.flush().unwrap();
}
